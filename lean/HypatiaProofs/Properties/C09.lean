import HypatiaProofs.Lemmas.Persist

/-!
# C09  Index state survives ZODB commit/reopen and is rolled back by abort   (partial)

What Lean carries: the dirty-tracking abstraction.  `Low` is ZODB's treatment of persistent
objects (only *registered* objects are written at commit/savepoint or invalidated at
abort/rollback; unregistered ones keep their in-memory value until evicted), `BLog` is the
specification ("the operations of committed transactions plus the surviving prefix of the
running one").  The theorem: if every operation block notifies each cell it touches
(`Disciplined` – in hypatia: every in-place change of a plain dict is followed by the
re-assignment marked "not redundant: Persistency!"), then after *any* sequence of
op / failing-op / commit / abort / savepoint / rollback / cacheMinimize / reopen commands memory
and disk are exactly the states of the surviving operations.  That hypatia's operations are
such blocks is derived from the object-level index models in `Properties/C09Index.lean`
(`c09_*_op_disciplined`, `c09_index_histories_refine`; the three hand-written blocks below are kept
as the smallest illustration); pickling, FileStorage and the cache are outside Lean: checked by
the runtime half.
-/
namespace Hyp.Persist

/-- all commands of a history are admissible in the state in which they are issued -/
def ValidSeq (l : BLog) : List LCmd → Prop
  | [] => True
  | c :: cs => l.valid c ∧ ValidSeq (l.step c) cs

def runLow (s : Low) (cmds : List LCmd) : Low := cmds.foldl Low.step s
def runLog (l : BLog) (cmds : List LCmd) : BLog := cmds.foldl BLog.step l

theorem ref_run (σ0 : Store) : ∀ (cmds : List LCmd) (s : Low) (l : BLog), Ref σ0 s l → ValidSeq l cmds →
    Ref σ0 (runLow s cmds) (runLog l cmds)
  | [], _, _, h, _ => h
  | c :: cs, s, l, h, hv => ref_run σ0 cs _ _ (ref_step σ0 s l h c hv.1) hv.2

/-- **Refinement** for every history: the cell store stays related to the transaction log. -/
theorem c09_refinement (σ0 : Store) (cmds : List LCmd) (hv : ValidSeq {} cmds) :
    Ref σ0 (runLow { disk := σ0, cur := σ0 } cmds) (runLog {} cmds) :=
  ref_run σ0 cmds _ _ (ref_init σ0) hv

theorem validSeq_snoc_evict : ∀ (cmds : List LCmd) (l : BLog), ValidSeq l (cmds ++ [.evict]) →
    ValidSeq l cmds ∧ (runLog l cmds).poisoned = false
  | [], l, h => ⟨trivial, h.1⟩
  | x :: xs, l, h => by
    obtain ⟨a, b⟩ := validSeq_snoc_evict xs (l.step x) h.2
    exact ⟨⟨h.1, a⟩, b⟩

/-- after a commit, closing and reopening with an empty cache shows exactly the committed operations,
which are all operations that were not aborted / rolled back -/
theorem c09_commit_reopen (σ0 : Store) (cmds : List LCmd) (hv : ValidSeq {} (cmds ++ [.commit, .reopen])) (c : Nat) :
    let s := runLow { disk := σ0, cur := σ0 } (cmds ++ [.commit, .reopen])
    let l := runLog {} (cmds ++ [.commit, .reopen])
    s.cur c = absRun σ0 l.committed c ∧ l.pending = [] := by
  have h := c09_refinement σ0 _ hv
  have hp : (runLog {} (cmds ++ [.commit, .reopen])).poisoned = false := by
    simp [runLog, List.foldl_append, BLog.step]
  have hpend : (runLog {} (cmds ++ [.commit, .reopen])).pending = [] := by
    simp [runLog, List.foldl_append, BLog.step]
  refine ⟨?_, hpend⟩
  have := h.mem hp c
  rw [hpend, List.append_nil] at this
  exact this

/-- an aborted transaction – also one in which an operation raised part-way – leaves memory exactly as
the committed operations left it -/
theorem c09_abort_restores (σ0 : Store) (cmds : List LCmd) (hv : ValidSeq {} (cmds ++ [.abort])) (c : Nat) :
    (runLow { disk := σ0, cur := σ0 } (cmds ++ [.abort])).cur c =
      absRun σ0 (runLog {} cmds).committed c := by
  have h := c09_refinement σ0 _ hv
  have e : runLog {} (cmds ++ [.abort]) = { committed := (runLog {} cmds).committed } := by
    simp [runLog, List.foldl_append, BLog.step]
  have := h.mem (by rw [e]) c
  rw [e] at this
  simpa using this

/-- a rolled-back savepoint leaves memory as it was when the savepoint was taken -/
theorem c09_rollback_restores (σ0 : Store) (cmds : List LCmd) (j : Nat)
    (hv : ValidSeq {} (cmds ++ [.rollback j])) (c : Nat) :
    let l := runLog {} cmds
    ∀ hj : j < l.saves.length,
      (runLow { disk := σ0, cur := σ0 } (cmds ++ [.rollback j])).cur c =
        absRun σ0 (l.committed ++ l.saves[j]) c := by
  intro l hj
  have h := c09_refinement σ0 _ hv
  have hget : l.saves[j]? = some l.saves[j] := List.getElem?_eq_getElem hj
  have e : runLog {} (cmds ++ [.rollback j]) =
      { l with pending := l.saves[j], saves := l.saves.take (j + 1), poisoned := false } := by
    simp only [runLog, List.foldl_append, List.foldl_cons, List.foldl_nil, BLog.step]
    show (match l.saves[j]? with | some p => _ | none => _) = _
    rw [hget]; rfl
  have := h.mem (by rw [e]) c
  rw [e] at this
  exact this

/-- cache eviction is invisible -/
theorem c09_evict_invisible (σ0 : Store) (cmds : List LCmd) (hv : ValidSeq {} (cmds ++ [.evict])) (c : Nat) :
    (runLow { disk := σ0, cur := σ0 } (cmds ++ [.evict])).cur c =
      (runLow { disk := σ0, cur := σ0 } cmds).cur c := by
  have hv' := validSeq_snoc_evict cmds {} hv
  have h1 := c09_refinement σ0 _ hv
  have h2 := c09_refinement σ0 _ hv'.1
  have e : runLog {} (cmds ++ [.evict]) = runLog {} cmds := by
    simp [runLog, List.foldl_append, BLog.step]
  rw [h1.mem (by rw [e]; exact hv'.2) c, e, h2.mem hv'.2 c]

/-- Why the discipline is needed: an in-place mutation that is never notified is lost by commit+reopen … -/
theorem c09_undisciplined_lost :
    let b : Block := [{ cell := 0, f := fun v => v + 1, notify := false }]
    let s := runLow { disk := fun _ => 0, cur := fun _ => 0 } [.op b, .commit, .reopen]
    s.cur 0 = 0 ∧ absRun (fun _ => 0) [b] 0 = 1 := by decide

/-- … and survives an abort. -/
theorem c09_undisciplined_survives_abort :
    let b : Block := [{ cell := 0, f := fun v => v + 1, notify := false }]
    let s := runLow { disk := fun _ => 0, cur := fun _ => 0 } [.op b, .abort]
    s.cur 0 = 1 := by decide

/-! ### hypatia's plain-container updates as blocks

`_wordinfo` is an IOBTree whose values are plain dicts below `DICT_CUTOFF` (cell = the bucket that
holds the dict) and IFBTrees above (cells of their own).  The three places that change a dict in
place re-assign it into the bucket afterwards. -/

/-- `_add_wordinfo` / `_mass_add_wordinfo` on a dict-valued entry: `doc2score[docid] = f` then
`self._wordinfo[wid] = doc2score` -/
def addWordinfoDict (bucket : Nat) (f : Val → Val) : Block :=
  [{ cell := bucket, f := f, notify := false }, { cell := bucket, f := id, notify := true }]

/-- `_del_wordinfo`: `del doc2score[docid]` then re-assignment (or `del self._wordinfo[wid]`) -/
def delWordinfoDict (bucket : Nat) (f : Val → Val) : Block :=
  [{ cell := bucket, f := f, notify := false }, { cell := bucket, f := id, notify := true }]

/-- the same updates on an IFBTree-valued entry notify by themselves -/
def addWordinfoTree (tree bucket : Nat) (f : Val → Val) : Block :=
  [{ cell := tree, f := f, notify := true }, { cell := bucket, f := id, notify := true }]

theorem c09_hypatia_blocks_disciplined (bucket tree : Nat) (f : Val → Val) :
    Disciplined (addWordinfoDict bucket f) ∧ Disciplined (delWordinfoDict bucket f) ∧
      Disciplined (addWordinfoTree tree bucket f) := by
  refine ⟨?_, ?_, ?_⟩ <;> intro a ha <;>
    simp only [addWordinfoDict, delWordinfoDict, addWordinfoTree, List.mem_cons, List.mem_nil_iff, or_false] at ha ⊢
  · rcases ha with rfl | rfl <;> exact ⟨⟨bucket, id, true⟩, by simp, rfl, rfl⟩
  · rcases ha with rfl | rfl <;> exact ⟨⟨bucket, id, true⟩, by simp, rfl, rfl⟩
  · rcases ha with rfl | rfl
    · exact ⟨⟨tree, f, true⟩, by simp, rfl, rfl⟩
    · exact ⟨⟨bucket, id, true⟩, by simp, rfl, rfl⟩

/-- blocks compose: a catalog operation is the concatenation of its indexes' blocks -/
theorem c09_blocks_compose (a b : Block) (ha : Disciplined a) (hb : Disciplined b) : Disciplined (a ++ b) := by
  intro x hx
  rcases List.mem_append.mp hx with h | h
  · obtain ⟨y, hy, e1, e2⟩ := ha x h; exact ⟨y, List.mem_append.mpr (Or.inl hy), e1, e2⟩
  · obtain ⟨y, hy, e1, e2⟩ := hb x h; exact ⟨y, List.mem_append.mpr (Or.inr hy), e1, e2⟩

/-! non-vacuity: a valid history with a failing operation, savepoint, rollback, commit, eviction -/
example :
    let b1 : Block := addWordinfoDict 0 (fun v => v + 5)
    let b2 : Block := addWordinfoTree 1 0 (fun v => v * 2)
    ValidSeq {} [.op b1, .savepoint, .op b2, .failop b1, .rollback 0, .op b2, .commit, .evict, .reopen] := by
  have d1 := (c09_hypatia_blocks_disciplined 0 1 (fun v => v + 5)).1
  have d2 := (c09_hypatia_blocks_disciplined 0 1 (fun v => v * 2)).2.2
  exact ⟨⟨d1, rfl⟩, rfl, ⟨d2, rfl⟩, d1, (by show 0 < 1; omega), ⟨d2, rfl⟩, rfl, rfl, trivial, trivial⟩

end Hyp.Persist
