import HypatiaProofs.Lemmas.PersistIndexLog
import HypatiaProofs.Properties.C09

/-!
# C09 from the object level

`Properties/C09.lean` proves the refinement for histories whose operation blocks are
`Disciplined`.  Here that hypothesis is **derived** for hypatia's own operations from the
object-level models (`HypatiaModel/ConcurrencyIndex.lean`, `ConcurrencyText.lean`) that C19 uses:
an operation's block is the list of mutation steps the model operation logs
(`HypatiaModel/PersistIndex.lean`: `fieldSteps`, `keywordSteps`, `facetSteps`, `textSteps`), in-place
changes of a dict stored inside the `_wordinfo` bucket being *plain* steps on the bucket's cell.

* `c09_field_op_disciplined`, `c09_keyword_op_disciplined`, `c09_facet_op_disciplined`: all containers
  are BTrees objects, every step notifies.
* `c09_text_op_disciplined`: every `TextIndex.index_doc` / `reindex_doc` / `unindex_doc` of the
  unchanged code, from **any** state, for any `DICT_CUTOFF`, either back end: each plain step on
  the `_wordinfo` bucket is followed by the re-assignment (or deletion) of the bucket key – proved
  through the decomposition of every operation into valid primitive steps (`reach_step`).
* `c09_index_histories_refine`: hence `c09_refinement` applies to every history of modelled index
  operations (and their concatenations = catalog operations, complete or cut off between two
  indexes by a raising discriminator) with commit / abort / savepoint / rollback / eviction /
  reopen.
* the two seeded slips as negative witnesses, for every state in which the word's posting is a dict
  below the cutoff: `_add_wordinfo` without the re-assignment (`c09_add_wordinfo_slip_lost`) and
  `_mass_add_wordinfo` flagging the tree root instead of the bucket (`c09_mass_add_slip_lost`) are
  not disciplined, the object-level write log misses the change, and commit + reopen shows the old
  bucket.
-/
set_option linter.unusedSectionVars false
namespace Hyp.Persist
open Hyp Hyp.CIdx

section
variable {V K W Wt : Type} [DecidableEq V] [DecidableEq K] [DecidableEq W] [DecidableEq Wt]

theorem c09_field_op_disciplined (cell : ObjId → Nat) (eff : Nat → Val → Val) (x : FTx V) (op : TOp V) :
    Disciplined (blockOf cell eff (fieldSteps x op)) :=
  disciplined_blockOf cell eff (discSteps_all_notify _ _)

theorem c09_keyword_op_disciplined (cell : ObjId → Nat) (eff : Nat → Val → Val) (c : KCfg) (x : KTx K)
    (op : TOp (List K)) : Disciplined (blockOf cell eff (keywordSteps c x op)) :=
  disciplined_blockOf cell eff (discSteps_all_notify _ _)

theorem c09_facet_op_disciplined (cell : ObjId → Nat) (eff : Nat → Val → Val) (facets : List K) (x : KTx K)
    (op : TOp (List K)) : Disciplined (blockOf cell eff (facetSteps facets x op)) :=
  disciplined_blockOf cell eff (discSteps_all_notify _ _)

/-- the steps cut out of the logs are the operation's own: the log of the state after the
operation is the log before it with exactly these steps appended (oldest first) -/
theorem c09_steps_are_the_log_gained (x : FTx V) (op : TOp V) (ck : KCfg) (xk : KTx K) (opk : TOp (List K))
    (facets : List K) (ct : TCfg Wt) (hc : ct.Faithful) (xt : TTx W Wt) (opt : TOp (List W)) :
    (∃ blk, (x.step op).writes = blk ++ x.writes ∧ fieldSteps x op = blk.reverse.map (fun l => ⟨l.obj, true⟩)) ∧
    (∃ blk, (KTx.step ck xk opk).writes = blk ++ xk.writes ∧
      keywordSteps ck xk opk = blk.reverse.map (fun l => ⟨l.obj, true⟩)) ∧
    (∃ blk, (KTx.facetStep facets xk opk).writes = blk ++ xk.writes ∧
      facetSteps facets xk opk = blk.reverse.map (fun l => ⟨l.obj, true⟩)) ∧
    (∃ blk, (TTx.step ct xt opt).log = blk ++ xt.log ∧
      textSteps ct xt opt = blk.reverse.map (fun s => ⟨s.loc.obj, s.notify⟩)) := by
  refine ⟨?_, ?_, ?_, ?_⟩
  · obtain ⟨blk, e⟩ := fext_step x op
    exact ⟨blk, e, by unfold fieldSteps; rw [e, gained_append]⟩
  · obtain ⟨blk, e⟩ := kext_step ck xk opk
    exact ⟨blk, e, by unfold keywordSteps; rw [e, gained_append]⟩
  · obtain ⟨blk, e⟩ := kext_facetStep facets xk opk
    exact ⟨blk, e, by unfold facetSteps; rw [e, gained_append]⟩
  · obtain ⟨blk, e, _⟩ := logExt_of_reach (reach_step (D := fun _ => True) hc (Reach.refl (x := xt)) opt trivial)
    exact ⟨blk, e, by unfold textSteps; rw [e, gained_append]⟩

/-- **Text index**: every operation of the unchanged code is a disciplined block, from any state. -/
theorem c09_text_op_disciplined (cell : TObj → Nat) (eff : Nat → Val → Val) (c : TCfg Wt) (hc : c.Faithful)
    (x : TTx W Wt) (op : TOp (List W)) : Disciplined (blockOf cell eff (textSteps c x op)) :=
  disciplined_blockOf cell eff
    (discSteps_of_reach (reach_step (D := fun _ => True) hc Reach.refl op trivial))

/-- the three places that change a dict in place, one by one: `_add_wordinfo`,
`_mass_add_wordinfo`, `_del_wordinfo` -/
theorem c09_text_wordinfo_calls_disciplined (cell : TObj → Nat) (eff : Nat → Val → Val) (c : TCfg Wt)
    (hc : c.Faithful) (x : TTx W Wt) (wid : Nat) (f : Wt) (d : Int) (w2w : AMap Nat Wt) :
    Disciplined (blockOf cell eff (addWordinfoSteps c x wid f d)) ∧
    Disciplined (blockOf cell eff (massAddSteps c x d w2w)) ∧
    Disciplined (blockOf cell eff
      ((gained x.log (TTx.delWordinfo x wid d).1.log).map fun s => (⟨s.loc.obj, s.notify⟩ : OStep TObj))) :=
  ⟨disciplined_blockOf cell eff
     (discSteps_of_reach (reach_addWordinfo (D := fun _ => True) hc Reach.refl wid f trivial)),
   disciplined_blockOf cell eff
     (discSteps_of_reach (reach_massAdd (D := fun _ => True) hc Reach.refl trivial w2w)),
   disciplined_blockOf cell eff
     (discSteps_of_reach (reach_delWordinfo (D := fun _ => True) Reach.refl wid trivial))⟩

end

/-- the blocks of the modelled index operations, and their concatenations (a catalog operation
runs its indexes one after the other; a discriminator that raises cuts the sequence between two
indexes) -/
inductive Modelled : Block → Prop where
  | field {V : Type} [DecidableEq V] (cell : ObjId → Nat) (eff : Nat → Val → Val) (x : FTx V) (op : TOp V) :
      Modelled (blockOf cell eff (fieldSteps x op))
  | keyword {K : Type} [DecidableEq K] (cell : ObjId → Nat) (eff : Nat → Val → Val) (c : KCfg) (x : KTx K)
      (op : TOp (List K)) : Modelled (blockOf cell eff (keywordSteps c x op))
  | facet {K : Type} [DecidableEq K] (cell : ObjId → Nat) (eff : Nat → Val → Val) (facets : List K) (x : KTx K)
      (op : TOp (List K)) : Modelled (blockOf cell eff (facetSteps facets x op))
  | text {W Wt : Type} [DecidableEq W] [DecidableEq Wt] (cell : TObj → Nat) (eff : Nat → Val → Val)
      (c : TCfg Wt) (hc : c.Faithful) (x : TTx W Wt) (op : TOp (List W)) :
      Modelled (blockOf cell eff (textSteps c x op))
  | nil : Modelled []
  | append {a b : Block} : Modelled a → Modelled b → Modelled (a ++ b)

theorem c09_modelled_disciplined {b : Block} (h : Modelled b) : Disciplined b := by
  induction h with
  | field cell eff x op => exact c09_field_op_disciplined cell eff x op
  | keyword cell eff c x op => exact c09_keyword_op_disciplined cell eff c x op
  | facet cell eff facets x op => exact c09_facet_op_disciplined cell eff facets x op
  | text cell eff c hc x op => exact c09_text_op_disciplined cell eff c hc x op
  | nil => intro a ha; simp at ha
  | append _ _ iha ihb => exact c09_blocks_compose _ _ iha ihb

/-- the protocol of the property with "disciplined" replaced by "a modelled index operation" -/
def BLog.protoValid (l : BLog) : LCmd → Prop
  | .op b => Modelled b ∧ l.poisoned = false
  | .failop b => Modelled b
  | .commit => l.poisoned = false
  | .abort => True
  | .savepoint => l.poisoned = false
  | .rollback j => j < l.saves.length
  | .evict => l.poisoned = false
  | .reopen => True

def ProtoSeq (l : BLog) : List LCmd → Prop
  | [] => True
  | c :: cs => l.protoValid c ∧ ProtoSeq (l.step c) cs

theorem validSeq_of_proto : ∀ (cmds : List LCmd) (l : BLog), ProtoSeq l cmds → ValidSeq l cmds
  | [], _, _ => trivial
  | c :: cs, l, h => by
    refine ⟨?_, validSeq_of_proto cs _ h.2⟩
    have h1 := h.1
    cases c <;> simp only [BLog.protoValid, BLog.valid] at h1 ⊢
    · exact ⟨c09_modelled_disciplined h1.1, h1.2⟩
    · exact c09_modelled_disciplined h1
    all_goals exact h1

/-- **Refinement for every history of modelled index operations**: memory and disk are the states
of the surviving operations, whatever the operations, states and interleaving of commit / abort /
savepoint / rollback / eviction / reopen. -/
theorem c09_index_histories_refine (σ0 : Store) (cmds : List LCmd) (h : ProtoSeq {} cmds) :
    Ref σ0 (runLow { disk := σ0, cur := σ0 } cmds) (runLog {} cmds) :=
  c09_refinement σ0 cmds (validSeq_of_proto cmds {} h)

/-- … in particular commit + reopen shows exactly the committed operations -/
theorem c09_index_commit_reopen (σ0 : Store) (cmds : List LCmd) (h : ProtoSeq {} (cmds ++ [.commit, .reopen]))
    (c : Nat) :
    (runLow { disk := σ0, cur := σ0 } (cmds ++ [.commit, .reopen])).cur c =
      absRun σ0 (runLog {} (cmds ++ [.commit, .reopen])).committed c :=
  (c09_commit_reopen σ0 cmds (validSeq_of_proto _ {} h) c).1

/-! ## the two seeded slips -/

section Slips
variable {W Wt : Type} [DecidableEq W] [DecidableEq Wt]

/-- a cell that no action of the block notifies shows its old value after commit + reopen -/
theorem lost_of_unnotified (σ0 : Store) (b : Block) (c0 : Nat) (h : ∀ a ∈ b, a.cell = c0 → a.notify = false) :
    (runLow { disk := σ0, cur := σ0 } [.op b, .commit, .reopen]).cur c0 = σ0 c0 := by
  have hd : ∀ (b : Block) (s : Low), (∀ a ∈ b, a.cell = c0 → a.notify = false) → c0 ∉ s.dirty →
      c0 ∉ (s.block b).dirty := by
    intro b
    induction b with
    | nil => intro s _ hs; exact hs
    | cons a as ih =>
      intro s hb hs
      simp only [Low.block, List.foldl_cons]
      apply ih
      · exact fun a' ha' => hb a' (List.mem_cons_of_mem _ ha')
      · simp only [Low.act]
        split
        · next hc =>
          intro hm
          rcases List.mem_cons.mp hm with e | e
          · have := hb a (by simp) e.symm
            rw [this] at hc; simp at hc
          · exact hs e
        · exact hs
  have hnd := hd b { disk := σ0, cur := σ0 } h (by simp)
  simp only [runLow, List.foldl_cons, List.foldl_nil, Low.step, Low.reopen, Low.commit]
  have : ((Low.block { disk := σ0, cur := σ0 } b).dirty.contains c0) = false := by
    simpa using hnd
  simp only [this, Bool.false_eq_true, if_false]
  rw [block_layers, block_disk]
  rfl

/-- **Slip 1** (`_add_wordinfo` updates a stored dict in place and returns without the
re-assignment).  For every state in which the word's posting is a dict not at the cutoff: the
operation's only step is a plain one on the `_wordinfo` bucket – not disciplined; the object-level
write log does not register the bucket although its value changed; and after commit + reopen the
bucket's cell holds the old value whereas the specification (`absRun`) has the updated one. -/
theorem c09_add_wordinfo_slip_lost (c : TCfg Wt) (hslip : c.addReassign = false) (x : TTx W Wt) (wid : Nat)
    (f : Wt) (d : Int) (m : AMap Int Wt) (h0 : AMap.get x.heap.wordinfo wid = some (.dict m))
    (hlen : m.length ≠ c.cutoff) (cell : TObj → Nat) (eff : Nat → Val → Val) (σ0 : Store) :
    let b := blockOf cell eff (addWordinfoSteps c x wid f d)
    addWordinfoSteps c x wid f d = [⟨.wordinfo, false⟩] ∧ ¬ Disciplined b ∧
    (TTx.addWordinfo c x wid f d).writes = x.writes ∧
    AMap.get (TTx.addWordinfo c x wid f d).heap.wordinfo wid = some (.dict (AMap.set m d f)) ∧
    (runLow { disk := σ0, cur := σ0 } [.op b, .commit, .reopen]).cur (cell .wordinfo) = σ0 (cell .wordinfo) ∧
    absRun σ0 [b] (cell .wordinfo) = eff 0 (σ0 (cell .wordinfo)) := by
  have hop : TTx.addWordinfo c x wid f d = (x.rd (.wi wid)).dictPut wid m d f := by
    unfold TTx.addWordinfo
    simp only
    have h0' : AMap.get (x.rd (.wi wid)).heap.wordinfo wid = some (.dict m) := h0
    rw [h0']
    simp only [TTx.addExisting, hlen, if_false, hslip, Bool.false_eq_true]
  have hsteps : addWordinfoSteps c x wid f d = [⟨.wordinfo, false⟩] := by
    unfold addWordinfoSteps
    rw [hop]
    have : ((x.rd (.wi wid)).dictPut wid m d f).log = [⟨.wi wid, false⟩] ++ x.log := rfl
    rw [this, gained_append]; rfl
  intro b
  have hb : b = [{ cell := cell .wordinfo, f := eff 0, notify := false }] := by
    show blockOf cell eff (addWordinfoSteps c x wid f d) = _
    rw [hsteps]; rfl
  refine ⟨hsteps, ?_, ?_, ?_, ?_, ?_⟩
  · rw [hb]
    intro hd
    obtain ⟨a', ha', _, e2⟩ := hd _ (List.mem_singleton.mpr rfl)
    rw [List.mem_singleton.mp ha'] at e2
    cases e2
  · rw [hop]; rfl
  · rw [hop]; simp [TTx.dictPut, TTx.pl, TTx.rd, AMap.get_set]
  · apply lost_of_unnotified
    intro a ha _
    rw [hb] at ha
    rw [List.mem_singleton.mp ha]
  · rw [hb]
    simp [absRun, absBlock, upd]

/-- **Slip 2** (`_mass_add_wordinfo` updates the stored dicts in place and then sets
`wordinfo._p_changed = True` on the tree's *root*).  With the bucket a persistent object of its own
(`cell` injective), for a document with one word whose posting is a dict not at the cutoff: the
bucket's cell is touched by a plain step and never notified; commit + reopen shows the old bucket. -/
theorem c09_mass_add_slip_lost (c : TCfg Wt) (hslip : c.massRootOnly = true) (x : TTx W Wt) (wid : Nat)
    (f : Wt) (d : Int) (m : AMap Int Wt) (h0 : AMap.get x.heap.wordinfo wid = some (.dict m))
    (hlen : m.length ≠ c.cutoff) (cell : TObj → Nat) (hinj : ∀ a b, cell a = cell b → a = b)
    (eff : Nat → Val → Val) (σ0 : Store) :
    let b := blockOf cell eff (massAddSteps c x d [(wid, f)])
    massAddSteps c x d [(wid, f)] = [⟨.wordinfo, false⟩, ⟨.wiRoot, true⟩, ⟨.wordCount, true⟩] ∧
    ¬ Disciplined b ∧
    tdirty (TTx.massAdd c x d [(wid, f)]).writes .wordinfo = tdirty x.writes .wordinfo ∧
    AMap.get (TTx.massAdd c x d [(wid, f)]).heap.wordinfo wid = some (.dict (AMap.set m d f)) ∧
    (runLow { disk := σ0, cur := σ0 } [.op b, .commit, .reopen]).cur (cell .wordinfo) = σ0 (cell .wordinfo) ∧
    absRun σ0 [b] (cell .wordinfo) = eff 0 (σ0 (cell .wordinfo)) := by
  have hop : TTx.massAdd c x d [(wid, f)] =
      ((((x.rd (.wi wid)).dictPut wid m d f).wiRootTouch).wcChange (0 + 0)) := by
    unfold TTx.massAdd TTx.massLoop TTx.massRound
    simp only
    have h0' : AMap.get (x.rd (.wi wid)).heap.wordinfo wid = some (.dict m) := h0
    rw [h0']
    simp only [TTx.massLoop, TTx.addExisting, hlen, if_false, hslip, Bool.not_true, Bool.false_eq_true, if_true]
  have hsteps : massAddSteps c x d [(wid, f)] = [⟨.wordinfo, false⟩, ⟨.wiRoot, true⟩, ⟨.wordCount, true⟩] := by
    unfold massAddSteps
    rw [hop]
    have : ((((x.rd (.wi wid)).dictPut wid m d f).wiRootTouch).wcChange (0 + 0)).log =
        [⟨.wordCount, true⟩, ⟨.wiRoot, true⟩, ⟨.wi wid, false⟩] ++ x.log := rfl
    rw [this, gained_append]; rfl
  intro b
  have hb : b = [{ cell := cell .wordinfo, f := eff 0, notify := false },
                 { cell := cell .wiRoot, f := eff 1, notify := true },
                 { cell := cell .wordCount, f := eff 2, notify := true }] := by
    show blockOf cell eff (massAddSteps c x d [(wid, f)]) = _
    rw [hsteps]; rfl
  have n1 : cell .wiRoot ≠ cell .wordinfo := fun e => by have := hinj _ _ e; cases this
  have n2 : cell .wordCount ≠ cell .wordinfo := fun e => by have := hinj _ _ e; cases this
  refine ⟨hsteps, ?_, ?_, ?_, ?_, ?_⟩
  · apply not_disciplined_blockOf cell hinj eff
    rw [hsteps]
    intro hd
    obtain ⟨s', hs', e1, e2⟩ := hd ⟨.wordinfo, false⟩ (by simp)
    simp at hs'
    rcases hs' with rfl | rfl | rfl
    · cases e2
    · cases e1
    · cases e1
  · rw [hop]
    have : ((((x.rd (.wi wid)).dictPut wid m d f).wiRootTouch).wcChange (0 + 0)).writes =
        .wordCount :: .wiRoot :: x.writes := rfl
    rw [this, tdirty_cons, tdirty_cons]
    simp [TLoc.obj]
  · rw [hop]; simp [TTx.wcChange, TTx.wiRootTouch, TTx.nt, TTx.dictPut, TTx.pl, TTx.rd, AMap.get_set]
  · apply lost_of_unnotified
    intro a ha hc
    rw [hb] at ha
    simp at ha
    rcases ha with rfl | rfl | rfl
    · rfl
    · exact absurd hc n1
    · exact absurd hc n2
  · rw [hb]
    simp [absRun, absBlock, upd, n1, n2, n1.symm, n2.symm]

end Slips

/-! ## non-vacuity: blocks of concrete operations, a history with a failing operation -/

open TextFreq in
/-- indexing a document whose word has a small dict posting: one plain step on the `_wordinfo`
bucket, followed by the notifying re-assignment -/
example :
    let c := okapiCfg 10
    let x := TTx.run c (TTx.start ({} : THeap Nat SWt) 0) [.index 1 (some [7])]
    (textSteps c x (.index 2 (some [7]))).map (fun s => (s.obj, s.notify)) =
      [(.wordinfo, false), (.wordinfo, true), (.wordCount, true), (.docweight, true), (.docwords, true),
       (.indexedCount, true), (.totalDocLen, true)] := by
  decide

open TextFreq in
example :
    let c := okapiCfg 10
    let x := TTx.run c (TTx.start ({} : THeap Nat SWt) 0) [.index 1 (some [7])]
    let cellT : TObj → Nat := fun o => match o with | .wordinfo => 0 | .docwords => 1 | _ => 2
    let b1 := blockOf cellT (fun _ v => v + 1) (textSteps c x (.index 2 (some [7])))
    let b2 := blockOf (fun _ => 5) (fun _ v => v * 2)
      (fieldSteps (FTx.start ({} : FHeap Int) 0) (.index 2 (some 3)))
    ProtoSeq {} [.op (b2 ++ b1), .savepoint, .op b1, .failop b2, .rollback 0, .commit, .evict, .reopen] := by
  intro c x cellT b1 b2
  have m1 : Modelled b1 := .text cellT _ c ⟨rfl, rfl⟩ x _
  have m2 : Modelled b2 := .field _ _ _ _
  exact ⟨⟨.append m2 m1, rfl⟩, rfl, ⟨m1, rfl⟩, m2, (by show 0 < 1; omega), rfl, rfl, trivial, trivial⟩

end Hyp.Persist
