import HypatiaModel.Spec.CqeSpec

namespace Hyp.Cqe

/-- Several statements, no statement, or a statement that is not an expression are rejected:
`parse` returns something only for a single expression statement, and then what `walk` returns. -/
theorem c10_single_expression (cat : List String) (body : List Stmt) (w : W)
    (h : parse cat body = .ok w) : ∃ e, body = [.expr e] ∧ walk cat e = .ok w := by
  unfold parse at h
  split at h
  · cases h
  · exact ⟨_, rfl, h⟩
  · cases h
  · cases h

end Hyp.Cqe
