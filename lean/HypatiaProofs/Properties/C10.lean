import HypatiaProofs.Lemmas.CqeNormal
import HypatiaProofs.Lemmas.CqeSubst
import HypatiaProofs.Lemmas.CqeQuery
import HypatiaProofs.Lemmas.CqeExec
import HypatiaProofs.Properties.C04

/-!
# C10  Query-expression strings parse to exactly the query they spell

Property statements only; lemmas are in `HypatiaProofs/Lemmas/Cqe{Basic,Values,Forward,Converse,Normal,Subst}.lean`.

* Model: `HypatiaModel/Cqe.lean` – hypatia's `_AstParser.parse`/`walk` with every `process_*`
  over `PyAst` (the tree the REAL `ast.parse` returns), `BoolOp.__init__` flattening,
  `_get_value`/`_get_start`/`_get_end`, the four `__eq__` methods over dynamically typed objects `W`.
* Specification: `HypatiaModel/Spec/CqeSpec.lean` – hand-built trees `Q` over values `V` and their
  embedding `embed`; the spellings `Sx`/`SV` of the documented expression language with
  `Sx.toAst` (the AST CPython's grammar gives a spelling – validated against the real parser on
  every run) and `Sx.tree` (the tree the query classes build); `V.subst`; `structEq`.
* CPython's own parser is trusted (third party); everything below starts at its output.

Known finding D11 (bare values / improper operands are returned, not rejected) is the reason the
converse (`c10_only_spellings_parse_to_queries`) speaks about results that ARE query trees, and
`c10_outside_language_rejected` carries the syntactic hypothesis `noBare`; what happens without it
is `c10_outside_language_partial` and the witnesses `c10_d11_*`.  The range half of the substitution
statement (`c10_range_subst`) is at full strength since fix D21 (range bounds go through
`_get_value`); the witness that used to fail is the regression example `c10_d21_regression`.
-/
namespace Hyp.Cqe
open Hyp.Query (Cmp)

/-! ## several statements / not an expression -/

/-- Several statements, no statement, or a statement that is not an expression are rejected:
`parse` returns something only for a single expression statement, and then what `walk` returns. -/
theorem c10_single_expression (cat : List String) (body : List Stmt) (w : W)
    (h : parse cat body = .ok w) : ∃ e, body = [.expr e] ∧ walk cat e = .ok w := by
  unfold parse at h
  split at h
  · cases h
  · exact ⟨_, rfl, h⟩
  · cases h
  · cases h

/-! ## every spelling parses to the tree built by hand -/

/-- For every spelling `s` of the language (any comparator, chained range, `in`/`not in` with
any()/all(), containment, and/or/not, `&`/`|`, any nesting i.e. parenthesisation, values: literals,
signed numbers, dotted names, nested lists/tuples) whose indexes exist: parsing yields exactly the
object built by hand with the query classes (`Sx.tree`: constructors applied bottom-up, including
the promotion of same-class operands). -/
theorem c10_spelling_parses (cat : List String) (s : Sx) (q : Q)
    (ht : s.tree = some q) (hc : s.inCat cat = true) :
    parse cat [.expr s.toAst] = .ok (embed q) := by
  simpa [parse] using walk_sx cat s q ht hc

/-- Every tree in flattened normal form (no `And` directly under `And`, no `Or` under `Or`, no
`NotInRange` – which has no spelling of its own) over spellable values has a spelling made of
literal tokens, and parsing that spelling returns the tree. -/
theorem c10_flat_trees_have_spellings (cat : List String) (q : Q)
    (hf : q.flat = true) (hs : q.spellable = true) (hc : q.inCat cat = true) :
    ∃ s : Sx, s.litOk = true ∧ s.tree = some q ∧ parse cat [.expr s.toAst] = .ok (embed q) := by
  obtain ⟨h1, h2⟩ := canon_ok q hf hs
  have h3 : (canon q).inCat cat = true := by rw [canon_inCat]; exact hc
  exact ⟨canon q, h2, h1, c10_spelling_parses cat (canon q) q h1 h3⟩

/-- An unknown index name is rejected (with `KeyError`, or an earlier error). -/
theorem c10_unknown_index_rejected (cat : List String) (s : Sx) (hc : s.inCat cat = false) :
    ∃ e, walk cat s.toAst = .error e := by
  cases h : walk cat s.toAst with
  | error e => exact ⟨e, rfl⟩
  | ok w =>
    exfalso
    obtain ⟨q, hq⟩ := noBare_proper cat s.toAst w (noBare_sxToAst s) h
    obtain ⟨s', h1, _, h3⟩ := walk_inv cat s.toAst w q h hq
    rw [unparse_toAst] at h1
    cases h1
    simp [hc] at h3

/-! ## nothing outside the language maps to a query -/

/-- The recogniser `unparse` accepts exactly the ASTs of spellings. -/
theorem c10_recogniser (a : PyAst) (s : Sx) : unparse a = some s ↔ s.toAst = a :=
  ⟨toAst_of_unparse a s, fun h => h ▸ unparse_toAst s⟩

/-- Converse (hypothesis forced by D11: the result IS a query tree over values of the language):
whenever parsing returns a query tree, the text was a single expression whose AST is the AST of a
spelling that denotes exactly this tree and names only indexes of the catalog. -/
theorem c10_only_spellings_parse_to_queries (cat : List String) (body : List Stmt) (q : Q)
    (h : parse cat body = .ok (embed q)) :
    ∃ s : Sx, body = [.expr s.toAst] ∧ s.tree = some q ∧ s.inCat cat = true := by
  obtain ⟨e, rfl, he⟩ := c10_single_expression cat body _ h
  obtain ⟨s, h1, h2, h3⟩ := walk_inv cat e (embed q) q he (unembed_embed q)
  exact ⟨s, by rw [toAst_of_unparse e s h1], h2, h3⟩

/-- Both directions on ASTs: the walk returns the tree `q` iff the AST is a spelling of `q` over
catalog indexes. -/
theorem c10_walk_iff_spelling (cat : List String) (a : PyAst) (q : Q) :
    walk cat a = .ok (embed q) ↔ ∃ s : Sx, s.toAst = a ∧ s.tree = some q ∧ s.inCat cat = true := by
  constructor
  · intro h
    obtain ⟨s, h1, h2, h3⟩ := walk_inv cat a (embed q) q h (unembed_embed q)
    exact ⟨s, toAst_of_unparse a s h1, h2, h3⟩
  · rintro ⟨s, rfl, h2, h3⟩
    exact walk_sx cat s q h2 h3

/-- The specification answer the check prints (`specParse`) is justified: it is `some q` exactly when
the walk returns the tree `q`. -/
theorem c10_spec_answer (cat : List String) (a : PyAst) (q : Q) :
    specParse cat a = some q ↔ walk cat a = .ok (embed q) := by
  rw [c10_walk_iff_spelling]
  unfold specParse
  constructor
  · intro h
    cases hu : unparse a with
    | none => simp [hu] at h
    | some s =>
      simp only [hu] at h
      by_cases hc : s.inCat cat = true
      · simp only [hc, if_true] at h
        exact ⟨s, toAst_of_unparse a s hu, h, hc⟩
      · simp [hc] at h
  · rintro ⟨s, rfl, h2, h3⟩
    simp [unparse_toAst, h3, h2]

/-- Text outside the language is rejected with an exception – under the explicit hypothesis that
no bare value stands in query position and no query/call in value position (`noBare`, the
syntactic complement of known finding D11): then an AST that is not the AST of a spelling with a
meaning over the catalog makes the walk raise. -/
theorem c10_outside_language_rejected (cat : List String) (a : PyAst) (hb : noBare a = true)
    (hout : ¬ ∃ s : Sx, s.toAst = a ∧ (∃ q, s.tree = some q) ∧ s.inCat cat = true) :
    ∃ e, walk cat a = .error e := by
  cases h : walk cat a with
  | error e => exact ⟨e, rfl⟩
  | ok w =>
    exfalso
    obtain ⟨q, hq⟩ := noBare_proper cat a w hb h
    obtain ⟨s, h1, h2, h3⟩ := walk_inv cat a w q h hq
    exact hout ⟨s, toAst_of_unparse a s h1, ⟨q, h2⟩, h3⟩

/- Full statement (does NOT hold, finding D11):
     (¬ ∃ s, s.toAst = a ∧ (∃ q, s.tree = some q) ∧ s.inCat cat) → ∃ e, walk cat a = .error e
   Without `noBare` the walk may also return an object that is not a query tree over values
   (`c10_d11_*` below are machine-checked counterexamples on the model; the check replays them on
   the real code).  What holds unconditionally: -/
theorem c10_outside_language_partial (cat : List String) (a : PyAst)
    (hout : ¬ ∃ s : Sx, s.toAst = a ∧ (∃ q, s.tree = some q) ∧ s.inCat cat = true) :
    (∃ e, walk cat a = .error e) ∨ (∃ w, walk cat a = .ok w ∧ unembed w = none) := by
  cases h : walk cat a with
  | error e => exact Or.inl ⟨e, rfl⟩
  | ok w =>
    refine Or.inr ⟨w, rfl, ?_⟩
    cases hq : unembed w with
    | none => rfl
    | some q =>
      exfalso
      obtain ⟨s, h1, h2, h3⟩ := walk_inv cat a w q h hq
      exact hout ⟨s, toAst_of_unparse a s h1, ⟨q, h2⟩, h3⟩

/-- D11, top level: `parse_query("a")` returns the `ast.Name`, `parse_query("1")` the number. -/
theorem c10_d11_top_level :
    parse ["a"] [.expr (.name "a")] = .ok (.astName "a") ∧
    parse ["a"] [.expr (.constant (.int 1))] = .ok (.const (.int 1)) ∧
    unembed (.astName "a") = none ∧ unembed (.const (.int 1)) = none := by
  simp [parse, walk, unembed]

/-- D11, `not <value>`: `parse_query("not 1")` returns `Not(1)`. -/
theorem c10_d11_not_value :
    parse ["a"] [.expr (.unaryOp .not (.constant (.int 1)))] = .ok (.not (.const (.int 1))) ∧
    unembed (.not (.const (.int 1))) = none := by
  simp [parse, walk, unOpOk, applyUn, unembed]

/-- D11, value position: `parse_query("a == (b == 1)")` returns `Eq(a, Eq(b, 1))`. -/
theorem c10_d11_query_as_value :
    parse ["a", "b"] [.expr (.compare (.name "a") [(.eq, .compare (.name "b") [(.eq, .constant (.int 1))])])] =
      .ok (.cmp .eq "a" (.cmp .eq "b" (.const (.int 1)))) ∧
    unembed (.cmp .eq "a" (.cmp .eq "b" (.const (.int 1)))) = none := by
  simp [parse, walk, cmpOps, cmpOpW, walkPairs, factoryCall, getIndex, W.wrap, unembed, unembedV]

/-! ## names are substituted at execution time -/

/-- `Comparator._get_value` with a names mapping: every name – at any depth of lists and tuples –
is replaced by its bound value (`V.subst`); `NameError` iff some name is unbound. -/
theorem c10_subst (m : List (String × W)) (v : V) :
    getValue (some m) (embedV v) =
      (match v.subst (sigmaOf m) with
       | some w => .ok w
       | none => .error .nameError) :=
  getValue_embedV m v

theorem c10_subst_error_iff (m : List (String × W)) (v : V) (e : Err) :
    getValue (some m) (embedV v) = .error e ↔
      e = .nameError ∧ ∃ n, n ∈ v.names ∧ m.lookup n = none := by
  rw [c10_subst]
  have := subst_none_iff (sigmaOf m) v
  cases h : v.subst (sigmaOf m) with
  | none =>
    have hn := this.mp h
    simp only [Except.error.injEq]
    exact ⟨fun he => ⟨he.symm, hn⟩, fun he => he.1.symm⟩
  | some w =>
    simp only [reduceCtorEq, false_iff, not_and]
    intro _ hn
    have := this.mpr hn
    simp [h] at this

/-- a comparator leaf hands its index the substituted constant -/
theorem c10_leaf_resolution (m : List (String × W)) (c : Cmp) (i : String) (v : V) :
    resolveLeaf (some m) (embed (.cmp c i v)) =
      (match v.subst (sigmaOf m) with
       | some w => .ok (.cmp c i w)
       | none => .error .nameError) := by
  simp only [embed, resolveLeaf, c10_subst]
  cases v.subst (sigmaOf m) <;> rfl

/-- values without names are handed over unchanged, also when no mapping is passed -/
theorem c10_constant_values_unchanged (names : Names) (v : V) (h : v.names = []) :
    getValue names (embedV v) = .ok (embedV v) :=
  getValue_no_names names v h

/-- Ranges (as repaired by fix D21): the bounds of a range are substituted like comparator values –
every name at any depth of lists and tuples; `NameError` when a name of the start bound, or else
of the end bound, is unbound. -/
theorem c10_range_subst (m : List (String × W)) (n : Bool) (i : String) (s e : V) (sx ex : Bool) :
    resolveLeaf (some m) (embed (.range n i s e sx ex)) =
      (match s.subst (sigmaOf m), e.subst (sigmaOf m) with
       | some a, some b => .ok (.range n i a b sx ex)
       | _, _ => .error .nameError) := by
  simp only [embed, resolveLeaf, c10_subst]
  cases s.subst (sigmaOf m) <;> cases e.subst (sigmaOf m) <;> rfl

/-- a range leaf raises exactly when a name inside one of its bounds – at any depth – is unbound -/
theorem c10_range_error_iff (m : List (String × W)) (n : Bool) (i : String) (s e : V) (sx ex : Bool) (err : Err) :
    resolveLeaf (some m) (embed (.range n i s e sx ex)) = .error err ↔
      err = .nameError ∧ ∃ x, (x ∈ s.names ∨ x ∈ e.names) ∧ m.lookup x = none := by
  rw [c10_range_subst]
  have hs := subst_none_iff (sigmaOf m) s
  have he := subst_none_iff (sigmaOf m) e
  cases h1 : s.subst (sigmaOf m) with
  | none =>
    obtain ⟨x, hx, hσ⟩ := hs.mp h1
    simp only [Except.error.injEq]
    exact ⟨fun h => ⟨h.symm, x, Or.inl hx, hσ⟩, fun h => h.1.symm⟩
  | some a =>
    cases h2 : e.subst (sigmaOf m) with
    | none =>
      obtain ⟨x, hx, hσ⟩ := he.mp h2
      simp only [Except.error.injEq]
      exact ⟨fun h => ⟨h.symm, x, Or.inr hx, hσ⟩, fun h => h.1.symm⟩
    | some b =>
      simp only [reduceCtorEq, false_iff, not_and]
      rintro _ ⟨x, hx | hx, hσ⟩
      · have := hs.mpr ⟨x, hx, hσ⟩; simp [h1] at this
      · have := he.mpr ⟨x, hx, hσ⟩; simp [h2] at this

/-- regression (the former D17/D21 witness): the bound `(x, 1)` of `(x, 1) <= a <= (y, 2)` reaches the
index as `(1, 1)`, and an unbound name inside a list bound raises `NameError`. -/
theorem c10_d21_regression :
    resolveLeaf (some [("x", .const (.int 1)), ("y", .const (.int 2))])
        (embed (.range false "a" (.tuple [.name "x", .const (.int 1)]) (.tuple [.name "y", .const (.int 2)])
          false false)) =
      .ok (.range false "a" (.tuple [.const (.int 1), .const (.int 1)])
        (.tuple [.const (.int 2), .const (.int 2)]) false false) ∧
    resolveLeaf (some [("x", .const (.int 1))])
        (embed (.range false "a" (.list [.name "z"]) (.const (.int 5)) true true)) = .error .nameError := by
  constructor <;> simp [c10_range_subst, V.subst, V.substs, sigmaOf, List.lookup]

/-- Executing a retained query object does not change it, so the answers of successive executions
with different `names` are independent: each one is the substitution of THAT execution's names
into the original tree (whatever the earlier executions bound or failed to bind). -/
theorem c10_subst_pure (w : W) (ns : List Names) :
    execSeq w ns = (w, ns.map (fun n => (leaves w).map (resolveLeaf n))) := by
  induction ns with
  | nil => rfl
  | cons n ns ih => simp [execSeq, execOnce, ih]

/-! ## `==` is structural identity -/

/-- The four `__eq__` methods (`Comparator`, `_Range`, `BoolOp`, `Name`) compute exactly
`structEq`: same classes, same index, same flags, same number of operands, leaf values equal in
Python's sense. -/
theorem c10_eq_is_structural (a b : Q) : weq (embed a) (embed b) = structEq a b :=
  weq_embed a b

/-- On the comparator/range/And/Or fragment `structEq` is reflexive – a tree equals a separately
built copy of itself – … -/
theorem c10_structEq_refl (q : Q) (h : q.notFree = true) : weq (embed q) (embed q) = true := by
  rw [c10_eq_is_structural]; exact structEq_refl q h

/-- … and only trees of that fragment are ever equal (`Not` has no `__eq__`: identity). -/
theorem c10_eq_only_on_fragment (a b : Q) (h : weq (embed a) (embed b) = true) :
    a.notFree = true ∧ b.notFree = true := by
  rw [c10_eq_is_structural] at h; exact notFree_of_structEq a b h

/-- equality of the parsed object with the hand-built one, for a Not-free spelling -/
theorem c10_parsed_equals_hand_built (cat : List String) (s : Sx) (q : Q) (w : W)
    (ht : s.tree = some q) (hc : s.inCat cat = true) (hn : q.notFree = true)
    (hw : parse cat [.expr s.toAst] = .ok w) : weq w (embed q) = true := by
  rw [c10_spelling_parses cat s q ht hc] at hw
  cases hw
  exact c10_structEq_refl q hn

/-! ## link to the query algebra of C04/C05 -/

/-- The trees of this file with integer values embed into `Hyp.Query.Q` (the algebra C04/C05 are
about; `Cmp` is shared), and building an `And`/`Or` by the constructor here is building it by
`Hyp.Query.mkAnd` / `mkOr` there. -/
theorem c10_embeds_in_query_algebra (ix : String → Option Nat) (k : BoolK) (qs : List Q) :
    (Q.mk k qs).toQuery? ix =
      (Q.toQueryL? ix qs).map (match k with | .and => Hyp.Query.mkAnd | .or => Hyp.Query.mkOr) := by
  cases k
  · simp only [Q.mk, Q.toQuery?, toQueryL?_flatMap_and]
    cases Q.toQueryL? ix qs <;> simp [Hyp.Query.mkAnd]
  · simp only [Q.mk, Q.toQuery?, toQueryL?_flatMap_or]
    cases Q.toQueryL? ix qs <;> simp [Hyp.Query.mkOr]

/-! ## executing the parsed object = C04's specification of the hand-built tree with the names substituted

`execParsed` (`HypatiaModel/CqeExec.lean`): `walk`'s result, every leaf resolved against `names`
(`resolveTree`), then `_apply` over a catalog of index models (`applyQM`, C04).  `q.substW σ`: the hand-built
tree with every name replaced by its binding; `W.toQuery?`: that object as a tree of the query algebra. -/

/-- resolving the parsed object is substituting into the hand-built tree (any mapping): the resolved object is
the substituted tree, `NameError` iff some name of some leaf – at any depth of lists and tuples – is unbound -/
theorem c10_resolution_is_substitution (cat : List String) (s : Sx) (q : Q) (ht : s.tree = some q)
    (hc : s.inCat cat = true) (m : List (String × W)) :
    ∃ w, parse cat [.expr s.toAst] = .ok w ∧
      resolveTree (some m) w =
        (match q.substW (sigmaOf m) with
         | some w' => .ok w'
         | none => .error .nameError) ∧
      (q.substW (sigmaOf m) = none ↔ ∃ n, n ∈ q.names ∧ m.lookup n = none) :=
  ⟨embed q, c10_spelling_parses cat s q ht hc, resolveTree_embed m q, substW_none_iff (sigmaOf m) q⟩

/-- **parse ∘ substitute ∘ execute = spec.**  For every spelling `s` of a tree `q` over the catalog's index
names (hypothesis of D11: the text spells a query tree – bare values in query position are returned, not
rejected), every names mapping `m` that binds every name of the tree, every numbering `ix` of the index
names, every catalog of index models after arbitrary histories `hs` (C03's hypotheses `HistsOK` for its text
indexes): the parsed object exists, the substituted hand-built tree exists, and when the latter lies in the
query algebra (`qA`: integer values) executing the parsed object with `names = m`

* has the outcome of `_apply` over the specification tables on `qA` (same error, or same members), and
* returns exactly the members of the set-theoretic reading `sem … qA` – comparator meanings, intersection,
  union, complement – when `qA`'s comparators are implemented by their index classes and it has no
  `All`/`NotAll` (hypothesis of D2; `Total` for trees with a `Not`).

Otherwise (a bound value that is not an integer or a list of integers) `execParsed` says `notInAlgebra`. -/
theorem c10_parse_substitute_execute (cat : List String) (s : Sx) (q : Q) (ht : s.tree = some q)
    (hc : s.inCat cat = true) (m : List (String × W)) (hb : ∀ n ∈ q.names, (m.lookup n).isSome = true)
    (ix : String → Option Nat) (hs : List Hyp.Query.IndexH) (hok : Hyp.Query.HistsOK hs) :
    ∃ w wq, parse cat [.expr s.toAst] = .ok w ∧ q.substW (sigmaOf m) = some wq ∧
      (wq.toQuery? ix = none → ∃ e, execParsed ix (Hyp.Query.modelCatalog hs) (some m) w = .error e) ∧
      ∀ qA, q.substQuery? ix (sigmaOf m) = some qA → Hyp.Query.leavesListed hs qA = true →
        (∀ e, execParsed ix (Hyp.Query.modelCatalog hs) (some m) w = .error (.query e) ↔
          Hyp.Query.applyQ (Hyp.Query.specCatalog hs) qA = .error e) ∧
        (∀ r, execParsed ix (Hyp.Query.modelCatalog hs) (some m) w = .ok r →
          ∃ r', Hyp.Query.applyQ (Hyp.Query.specCatalog hs) qA = .ok r' ∧ ∀ d, d ∈ r ↔ d ∈ r') ∧
        (Hyp.Query.wellTypedStrict (Hyp.Query.specCatalog hs) qA = true →
          (Hyp.Query.Total (Hyp.Query.specCatalog hs) ∨ Hyp.Query.noNot qA = true) →
          ∃ r r', execParsed ix (Hyp.Query.modelCatalog hs) (some m) w = .ok r ∧
            Hyp.Query.sem (Hyp.Query.specCatalog hs) qA = .ok r' ∧ ∀ d, d ∈ r ↔ d ∈ r') := by
  obtain ⟨wq, hwq⟩ := substW_of_bound m q hb
  have hres : resolveTree (some m) (embed q) = .ok wq := by rw [resolveTree_embed, hwq]
  refine ⟨embed q, wq, c10_spelling_parses cat s q ht hc, hwq, ?_, ?_⟩
  · intro hn
    exact ⟨.notInAlgebra, by simp only [execParsed, hres, hn]⟩
  · intro qA hqA hl
    have hq' : wq.toQuery? ix = some qA := by simpa [Q.substQuery?, hwq] using hqA
    have hex : execParsed ix (Hyp.Query.modelCatalog hs) (some m) (embed q) =
        (match Hyp.Query.applyQM (Hyp.Query.modelCatalog hs) qA with
         | .error e => .error (.query e)
         | .ok r => .ok r) := by
      simp only [execParsed, hres, hq']
      cases Hyp.Query.applyQM (Hyp.Query.modelCatalog hs) qA <;> rfl
    obtain ⟨e1, e2, e3⟩ := Hyp.Query.c04_end_to_end hs qA hok hl
    refine ⟨fun e => ?_, fun r hr => ?_, fun hw hT => ?_⟩
    · rw [hex, ← e1 e]
      cases Hyp.Query.applyQM (Hyp.Query.modelCatalog hs) qA <;> simp
    · rw [hex] at hr
      cases hM : Hyp.Query.applyQM (Hyp.Query.modelCatalog hs) qA with
      | error e => rw [hM] at hr; cases hr
      | ok r0 =>
        rw [hM] at hr
        simp only [Except.ok.injEq] at hr
        subst hr
        exact e2 _ hM
    · obtain ⟨ra, rs, ha, hsem, hm⟩ := Hyp.Query.c04_apply_is_sem_partial _ qA hw hT
      obtain ⟨r, hr, hrm⟩ := e3 ra ha
      refine ⟨r, rs, by rw [hex, hr], hsem, fun d => (hrm d).trans (hm d)⟩

/-! ## non-vacuity -/

/-- `1 == True == 1.0`, `-0.0 == 0`, `2**53 + 1 != float(2**53)`, `'a' != b'a'` -/
example : Const.pyEq (.int 1) (.bool true) = true ∧ Const.pyEq (.int 1) (.float ⟨false, false, 1, 0⟩) = true ∧
    Const.pyEq (.float ⟨true, false, 0, 0⟩) (.int 0) = true ∧
    Const.pyEq (.int 9007199254740993) (.float ⟨false, false, 1, 53⟩) = false ∧
    Const.pyEq (.str "a") (.bytes [97]) = false := by decide

/-- `a == 1 and (b < -2 and not x.y in any([p, (q, 'k')]))` with its redundant nesting: the spelling
has a tree, the tree is the flattened `And(Eq, Lt, Not(Any))`, and parsing returns it. -/
example :
    let s : Sx := .kw .and [.cmp .eq ⟨"a", []⟩ (.lit (.int 1)),
      .kw .and [.cmp .lt ⟨"b", []⟩ (.neg (.lit (.int 2))),
        .not (.cmp .any ⟨"x", ["y"]⟩ (.list [.name ⟨"p", []⟩, .tuple [.name ⟨"q", []⟩, .lit (.str "k")]]))]]
    let q : Q := .and [.cmp .eq "a" (.const (.int 1)), .cmp .lt "b" (.const (.int (-2))),
      .not (.cmp .any "x.y" (.list [.name "p", .tuple [.name "q", .const (.str "k")]]))]
    s.tree = some q ∧ s.inCat ["a", "b", "x.y"] = true ∧
      parse ["a", "b", "x.y"] [.expr s.toAst] = .ok (embed q) := by
  intro s q
  have ht : s.tree = some q := by
    simp [s, q, Sx.tree, Sx.trees, SV.val, SV.vals, Const.neg?, Q.mk, Q.flatOf, Dotted.id]
  have hc : s.inCat ["a", "b", "x.y"] = true := by
    simp [s, Sx.inCat, Sx.allInCat, Dotted.id]
  exact ⟨ht, hc, c10_spelling_parses _ s q ht hc⟩

/-- the hypotheses of `c10_outside_language_rejected` are met by `a == 1 == 2` (chained comparison
other than lower/upper bounds): no bare position, not a spelling – so it is rejected. -/
example : ∃ e, walk ["a"] (.compare (.name "a") [(.eq, .constant (.int 1)), (.eq, .constant (.int 2))]) = .error e := by
  apply c10_outside_language_rejected
  · simp [noBare, valueShaped, pairOk]
  · rintro ⟨s, hs, _, _⟩
    have := (c10_recogniser _ s).mpr hs
    simp [unparse, ltFlag] at this

/-- substitution inside a list inside a tuple, and an unbound name -/
example :
    getValue (some [("x", .const (.int 5))]) (embedV (.tuple [.list [.name "x"], .const .none])) =
      .ok (.tuple [.list [.const (.int 5)], .const .none]) ∧
    getValue (some [("x", .const (.int 5))]) (embedV (.list [.name "y"])) = .error .nameError := by
  simp [c10_subst, V.subst, V.substs, sigmaOf, List.lookup]

/-- `a >= x and not b in any([1, y])` with `x = 5`, `y = 3` over a field index `a` (re-indexed document) and a
keyword index `b`: the hypotheses of `c10_parse_substitute_execute` are met (spelling of the tree, every name
bound, the substituted tree in the algebra and well typed without `All`), the substituted tree is
`And(Ge(a, 5), Not(Any(b, [1, 3])))`, and both sides give `{2}` -/
example :
    let s : Sx := .kw .and [.cmp .ge ⟨"a", []⟩ (.name ⟨"x", []⟩),
      .not (.cmp .any ⟨"b", []⟩ (.list [.lit (.int 1), .name ⟨"y", []⟩]))]
    let q : Q := .and [.cmp .ge "a" (.name "x"), .not (.cmp .any "b" (.list [.const (.int 1), .name "y"]))]
    let m : List (String × W) := [("x", .const (.int 5)), ("y", .const (.int 3))]
    let ix : String → Option Nat := fun n => if n = "a" then some 0 else if n = "b" then some 1 else none
    let hs : List Hyp.Query.IndexH :=
      [.field [.index 1 (some 5), .index 2 (some 7), .index 3 (some 4), .index 2 (some 8)],
       .keyword [.index 1 (some [1, 2]), .index 2 (some [2]), .index 3 (some [3])]]
    let qA : Hyp.Query.Q := .and [.cmp .ge 0 (.one 5), .not (.cmp .any 1 (.many [1, 3]))]
    s.tree = some q ∧ s.inCat ["a", "b"] = true ∧ (∀ n ∈ q.names, (m.lookup n).isSome = true) ∧
      q.substQuery? ix (sigmaOf m) = some qA ∧
      Hyp.Query.wellTypedStrict (Hyp.Query.specCatalog hs) qA = true ∧
      execParsed ix (Hyp.Query.modelCatalog hs) (some m) (embed q) = .ok [2] ∧
      Hyp.Query.sem (Hyp.Query.specCatalog hs) qA = .ok [2] := by
  intro s q m ix hs qA
  refine ⟨?_, ?_, ?_, rfl, rfl, rfl, rfl⟩
  · simp [s, q, Sx.tree, Sx.trees, SV.val, SV.vals, Q.mk, Q.flatOf, Dotted.id]
  · simp [s, Sx.inCat, Sx.allInCat, Dotted.id]
  · intro n hn
    simp [q, Q.names, Q.namesL, V.names, V.namesL] at hn
    rcases hn with rfl | rfl <;> rfl

end Hyp.Cqe
