import HypatiaProofs.Lemmas.ResultSet
import HypatiaProofs.Properties.C07

/-!
# C11  A ResultSet's length, iteration, first/one/all and chained sorts agree

`rs : RS R` is a result set in either representation – a collection with `__len__` or a one-shot
iterator (generator) – with any resolver type `R`.  `seq rs` is the sequence it denotes, `pending rs`
the `Unsortable` a complete iteration would end with (only a sorted result whose ids were not all
sortable has one).  Every operation returns the receiver's new state and its result.

Where an index is needed it is a field index after any history (`Field.sort (run h)`), and the
statements rest on C07 (`c07_sort_ok`, `c07_sort_stable`, `c07_stable_sort_characterised`).
Property statements only – lemmas live in `Lemmas/ResultSet.lean`.
-/
set_option linter.unusedSectionVars false
set_option linter.unusedVariables false
namespace Hyp.RSet
open Hyp Hyp.Field Hyp.RSet.Spec

variable {R : Type}

/-! ## first / one: no consumption, either representation -/

/-- `first()` is the first element of the sequence (through the resolver when present and requested)
or `None`, and the receiver is *the same* afterwards – also when the ids are a one-shot iterator. -/
theorem c11_first (rs : RS R) (resolve : Bool) (h : pending rs = none ∨ seq rs ≠ []) :
    rs.first resolve = (rs, .ok ((seq rs).head?.map (rs.present resolve))) :=
  first_eq rs resolve h

/-- any number of `first()` / `one()` / `len()` calls in any order leave the result set as it was:
later iteration still sees every id -/
theorem c11_peeks_do_not_consume (rs : RS R) (ps : List Peek) (h : pending rs = none ∨ seq rs ≠ []) :
    ps.foldl peek rs = rs :=
  peeks_eq rs ps h

/-- in particular every repetition of `first()` returns the same element -/
theorem c11_first_idempotent (rs : RS R) (ps : List Peek) (resolve : Bool)
    (h : pending rs = none ∨ seq rs ≠ []) :
    ((ps.foldl peek rs).first resolve).2 = (rs.first resolve).2 := by
  rw [peeks_eq rs ps h]

/-- `one()` returns the sole element, raises NoResults on an empty and MultipleResults on a longer
result (count and sequence in agreement) -/
theorem c11_one (rs : RS R) (resolve : Bool) (hc : Consistent rs) :
    rs.one resolve = (rs, match seq rs with
      | [] => .error .noResults
      | [x] => .ok (some (rs.present resolve x))
      | _ :: _ :: _ => .error .multipleResults) := by
  rw [one_eq rs resolve hc.1 (Or.inl hc.2)]
  cases seq rs with
  | nil => rfl
  | cons x rest => cases rest <;> rfl

/-! ## len / iteration / all / resolver -/

/-- `all(resolve)` and iteration yield the sequence, the resolver applied to each id when present and
requested; `len` is the number of ids yielded -/
theorem c11_len_iter_all (rs : RS R) (resolve : Bool) (hc : Consistent rs) :
    (rs.all resolve).2 = ((seq rs).map (rs.present resolve), none) ∧
    rs.iter.2 = ((seq rs).map (rs.present true), none) ∧
    rs.len = (rs.iter.2.1).length ∧ rs.len = ((rs.all resolve).2.1).length := by
  have hp : rs.ids.contents.2 = none := hc.2
  refine ⟨?_, ?_, ?_, ?_⟩
  · simp [RS.all, seq, hp]
  · simp [RS.iter, RS.all, seq, hp]
  · simp [RS.iter, RS.all, RS.len, hc.1, seq]
  · simp [RS.all, RS.len, hc.1, seq]

/-- the resolver is applied pointwise, only when present *and* requested -/
theorem c11_resolver (rs : RS R) (f : Int → R) (hr : rs.resolver = some f) :
    (rs.all true).2.1 = (seq rs).map (fun d => Val.obj (f d)) ∧
    (rs.all false).2.1 = (seq rs).map Val.id := by
  constructor
  · simp only [RS.all, seq]
    apply List.map_congr_left
    intro d _
    simp [RS.present, hr]
  · simp only [RS.all, seq]
    apply List.map_congr_left
    intro d _
    simp [RS.present, hr]

theorem c11_no_resolver (rs : RS R) (hr : rs.resolver = none) (resolve : Bool) :
    (rs.all resolve).2.1 = (seq rs).map Val.id := by
  simp only [RS.all, seq]
  apply List.map_congr_left
  intro d _
  simp [RS.present, hr]

/-- a result set produced by executing a query is consistent: `len` = number of ids -/
theorem c11_query_result (docids : List Int) (resolver : Option (Int → R)) :
    Consistent (ofQuery docids resolver) ∧ seq (ofQuery docids resolver) = docids :=
  ⟨⟨rfl, rfl⟩, rfl⟩

/-- iterating a collection-backed result set changes nothing; a one-shot one is used up -/
theorem c11_iteration_consumes_only_streams (rs : RS R) :
    (rs.ids.hasLen = true → rs.iter.1 = rs) ∧ (rs.ids.hasLen = false → seq rs.iter.1 = []) := by
  obtain ⟨ids, n, res, st⟩ := rs
  cases ids <;> simp [RS.iter, RS.all, Ids.hasLen, Ids.exhausted, seq, Ids.contents]

/-! ## sorting -/

variable {V : Type} [DecidableEq V] [LT V] [DecidableLT V] [LE V] [DecidableLE V]

/-- **len under a limit.**  Sorting a consistent result set of distinct ids that the index can all
sort gives a consistent result set: `len` = number of ids iteration yields = `min(count, limit)`;
it satisfies every clause of C07 and is marked STABLE for the next sort. -/
theorem c11_sort_len (o : OrdLaws V) (h : List (Op V)) (rs rs' : RS R) (hc : Consistent rs)
    (hnd : (seq rs).Nodup) (hall : ∀ d ∈ seq rs, Field.Spec.sortable (Field.Spec.table h) d = true)
    (reverse : Bool) (limit : Option Int) (st : Option SortType) (raiseU : Bool)
    (hs : (rs.sort (Field.sort (run h)) reverse limit st raiseU).2 = .ok rs') :
    Consistent rs' ∧
    rs'.len = (match limit with | none => (seq rs).length | some l => min l.toNat (seq rs).length) ∧
    Field.Spec.SortOK (Field.Spec.table h) (seq rs) reverse (limit.map Int.toNat) (seq rs') ∧
    rs'.sortType = some .stable ∧ rs'.resolver = rs.resolver := by
  rw [sort_of_pending_none rs _ reverse limit st raiseU hc.2] at hs
  cases hr : ofSortRes (Field.sort (run h) (seq rs) reverse limit (rs.effType st) raiseU) with
  | error e => rw [hr] at hs; cases hs
  | ok ids =>
    rw [hr] at hs
    simp only [Except.ok.injEq] at hs
    have e_ids : rs'.ids = ids := by rw [← hs]
    have e_num : rs'.numids = limitNumids rs.numids limit := by rw [← hs]
    have e_st : rs'.sortType = some .stable := by rw [← hs]
    have e_res : rs'.resolver = rs.resolver := by rw [← hs]
    obtain ⟨g, hg, hcont⟩ := ofSortRes_ok hr
    obtain ⟨hok, hraise, _⟩ := c07_sort_ok o h (seq rs) hnd reverse limit (rs.effType st) raiseU g hg
    have hb := observe_some_not_badLimit hg
    have hseq : seq rs' = g.ids := by simp [seq, e_ids, hcont]
    have hpend : pending rs' = none := by
      simp only [pending, e_ids, hcont]
      have : g.raised.isSome = false := by
        rw [hraise]; simp [Field.Spec.shouldRaise, missing_none hall]
      cases hgr : g.raised with
      | none => rfl
      | some _ => rw [hgr] at this; cases this
    have hlen := hok.length
    rw [sortables_all hall] at hlen
    refine ⟨⟨?_, hpend⟩, ?_, by rw [hseq]; exact hok, e_st, e_res⟩
    · rw [hseq, hlen, e_num, limitNumids_eq_cut _ _ hb, hc.1]
    · show rs'.numids = _
      rw [e_num, limitNumids_eq_cut _ _ hb, hc.1]
      cases limit <;> rfl

/-- **Chained sorts.**  Sorting an already sorted result set (marked STABLE, nothing pending) by a second
index with the default `sort_type` gives the *stable* sort of the first order by the second key … -/
theorem c11_chained_sort (o : OrdLaws V) (hb : List (Op V)) (rs1 rs2 : RS R)
    (hst : rs1.sortType = some .stable) (hp : pending rs1 = none)
    (reverse : Bool) (limit : Option Int) (raiseU : Bool)
    (hs : (rs1.sort (Field.sort (run hb)) reverse limit none raiseU).2 = .ok rs2) :
    seq rs2 = match limit.map Int.toNat with
      | none => Field.Spec.stableSort (Field.Spec.table hb) reverse (seq rs1)
      | some l => (Field.Spec.stableSort (Field.Spec.table hb) reverse (seq rs1)).take l := by
  rw [sort_of_pending_none rs1 _ reverse limit none raiseU hp] at hs
  have het : rs1.effType none = some .stable := hst
  rw [het] at hs
  cases hr : ofSortRes (Field.sort (run hb) (seq rs1) reverse limit (some .stable) raiseU) with
  | error e => rw [hr] at hs; cases hs
  | ok ids =>
    rw [hr] at hs
    simp only [Except.ok.injEq] at hs
    subst hs
    obtain ⟨g, hg, hcont⟩ := ofSortRes_ok hr
    have := c07_sort_stable o hb (seq rs1) reverse limit (some .stable) (Or.inl rfl) raiseU g hg
    simp only [seq, hcont]
    exact this

/-- … that is: ordered by the second key, and ids with equal second keys keep the order the first sort
gave them (no limit on the second sort; with a limit the result is the first `limit` of that list). -/
theorem c11_chained_sort_keeps_first_order (o : OrdLaws V) (hb : List (Op V)) (rs1 rs2 : RS R)
    (hst : rs1.sortType = some .stable) (hp : pending rs1 = none)
    (reverse : Bool) (raiseU : Bool)
    (hs : (rs1.sort (Field.sort (run hb)) reverse none none raiseU).2 = .ok rs2) :
    (seq rs2).Pairwise (Field.Spec.keyLe (Field.Spec.table hb) reverse) ∧
    (seq rs2).Perm (Field.Spec.sortables (Field.Spec.table hb) (seq rs1)) ∧
    ∀ v : V, (seq rs2).filter (fun d => decide (Field.Spec.valueOf (Field.Spec.table hb) d = some v)) =
      (seq rs1).filter (fun d => decide (Field.Spec.valueOf (Field.Spec.table hb) d = some v)) := by
  have := c11_chained_sort o hb rs1 rs2 hst hp reverse none raiseU hs
  simp only [Option.map_none] at this
  rw [this]
  obtain ⟨a, b, c⟩ := c07_stable_sort_characterised o hb (seq rs1) reverse
  exact ⟨b, a, c⟩

/-- every sort marks its result STABLE (so that the *next* default sort is the stable one) -/
theorem c11_sort_marks_stable (rs rs' : RS R) (idx : IndexSort) (reverse : Bool) (limit : Option Int)
    (st : Option SortType) (raiseU : Bool) (hs : (rs.sort idx reverse limit st raiseU).2 = .ok rs') :
    rs'.sortType = some .stable := by
  unfold RS.sort at hs
  cases hm : rs.ids.materialise with
  | mk a b =>
    rw [hm] at hs
    cases b with
    | error ds => cases hs
    | ok xs =>
      simp only at hs
      cases hr : ofSortRes (idx xs reverse limit (rs.effType st) raiseU) with
      | error e => rw [hr] at hs; cases hs
      | ok ids => rw [hr] at hs; simp only [Except.ok.injEq] at hs; rw [← hs]

/-- **Unsortable at the latest on iteration.**  Sorting with default flags (no limit, raise_unsortable)
a result set that contains an id the index has no value for either raises Unsortable in the call
(empty index; or the ids were themselves a sorted result with a pending Unsortable) or returns a result
set whose iteration ends with Unsortable. -/
theorem c11_default_sort_raises (o : OrdLaws V) (h : List (Op V)) (rs : RS R) (hnd : (seq rs).Nodup)
    (d : Int) (hd : d ∈ seq rs) (hnot : Field.Spec.sortable (Field.Spec.table h) d = false)
    (reverse : Bool) (st : Option SortType)
    (hrej : Field.Spec.rejects reverse none (rs.effType st) = false) :
    (∃ ds, (rs.sort (Field.sort (run h)) reverse none st true).2 = .error (.unsortable ds)) ∨
    (∃ rs', (rs.sort (Field.sort (run h)) reverse none st true).2 = .ok rs' ∧ (pending rs').isSome = true ∧
      ∃ ds, (rs'.iter).2.2 = some (.unsortable ds)) := by
  cases hp : pending rs with
  | some ds => exact Or.inl ⟨ds, sort_of_pending_some rs _ reverse none st true ds hp⟩
  | none =>
    rw [sort_of_pending_none rs _ reverse none st true hp]
    cases hr : ofSortRes (Field.sort (run h) (seq rs) reverse none (rs.effType st) true) with
    | error e =>
      left
      rcases ofSortRes_error hr with ⟨hv, _⟩ | ⟨ds, _, he⟩
      · have := (c07_sort_valueError_iff h (seq rs) reverse none (rs.effType st) true).mp hv
        rcases this with hb | ⟨_, _, hrj⟩
        · cases hb
        · rw [hrej] at hrj; cases hrj
      · exact ⟨ds, by rw [he]⟩
    | ok ids =>
      right
      obtain ⟨g, hg, hcont⟩ := ofSortRes_ok hr
      obtain ⟨_, hraise, _⟩ := c07_sort_ok o h (seq rs) hnd reverse none (rs.effType st) true g hg
      have hmiss : (Field.Spec.missing (Field.Spec.table h) (seq rs)).isEmpty = false := by
        have : d ∈ Field.Spec.missing (Field.Spec.table h) (seq rs) := by
          unfold Field.Spec.missing
          exact List.mem_filter.mpr ⟨hd, by simp [hnot]⟩
        cases hm : Field.Spec.missing (Field.Spec.table h) (seq rs) with
        | nil => rw [hm] at this; cases this
        | cons _ _ => rfl
      have hsome : g.raised.isSome = true := by
        rw [hraise]; simp [Field.Spec.shouldRaise, hmiss]
      refine ⟨_, rfl, by simp [pending, hcont, hsome], ?_⟩
      obtain ⟨ds, hds⟩ := Option.isSome_iff_exists.mp hsome
      exact ⟨ds, by simp [RS.iter, RS.all, hcont, hds]⟩

/-! ## intersect -/

/-- `intersect` keeps exactly the ids present in both, in the receiver's order; the result is a
consistent, collection-backed result set with the same resolver.  The argument may be a collection or
a one-shot iterator. -/
theorem c11_intersect (rs : RS R) (arg : Ids) (hp : pending rs = none) (ha : arg.contents.2 = none) :
    ∃ r, (rs.intersectIds arg).2.2 = .ok r ∧
      seq r = (seq rs).filter (fun x => decide (x ∈ arg.contents.1)) ∧
      Consistent r ∧ r.resolver = rs.resolver ∧ r.ids.hasLen = true := by
  have hp' : rs.ids.contents.2 = none := hp
  cases arg with
  | coll xs =>
    refine ⟨{ ids := .coll ((seq rs).filter (fun x => decide (x ∈ xs))),
              numids := ((seq rs).filter (fun x => decide (x ∈ xs))).length, resolver := rs.resolver },
      ?_, rfl, ⟨rfl, rfl⟩, rfl, rfl⟩
    simp [RS.intersectIds, RS.intersectWith, hp', seq]
  | stream g =>
    obtain ⟨gi, gr⟩ := g
    simp only [Ids.contents] at ha
    subst ha
    refine ⟨{ ids := .coll ((seq rs).filter (fun x => decide (x ∈ gi))),
              numids := ((seq rs).filter (fun x => decide (x ∈ gi))).length, resolver := rs.resolver },
      ?_, rfl, ⟨rfl, rfl⟩, rfl, rfl⟩
    simp [RS.intersectIds, Ids.materialise, RS.intersectWith, hp', seq]

/-- … and when the argument is another result set (e.g. a sorted one, backed by a generator), that
result set still denotes the same sequence afterwards -/
theorem c11_intersect_resultset (rs other : RS R) (hp : pending rs = none) (ho : pending other = none) :
    ∃ r, (rs.intersectRS other).2.2 = .ok r ∧
      seq r = (seq rs).filter (fun x => decide (x ∈ seq other)) ∧ Consistent r ∧
      seq (rs.intersectRS other).2.1 = seq other ∧ pending (rs.intersectRS other).2.1 = none ∧
      (rs.intersectRS other).2.1.numids = other.numids := by
  have hp' : rs.ids.contents.2 = none := hp
  obtain ⟨oids, on, ores, ost⟩ := other
  cases oids with
  | coll xs =>
    refine ⟨{ ids := .coll ((seq rs).filter (fun x => decide (x ∈ xs))),
              numids := ((seq rs).filter (fun x => decide (x ∈ xs))).length, resolver := rs.resolver },
      ?_, rfl, ⟨rfl, rfl⟩, rfl, ho, rfl⟩
    simp [RS.intersectRS, RS.intersectWith, hp', seq]
  | stream g =>
    obtain ⟨gi, gr⟩ := g
    simp only [pending, Ids.contents] at ho
    subst ho
    refine ⟨{ ids := .coll ((seq rs).filter (fun x => decide (x ∈ gi))),
              numids := ((seq rs).filter (fun x => decide (x ∈ gi))).length, resolver := rs.resolver },
      ?_, rfl, ⟨rfl, rfl⟩, rfl, rfl, rfl⟩
    simp [RS.intersectRS, Ids.materialise, RS.intersectWith, hp', seq]

/-! ## non-vacuity -/

def exIdx : List (Op Int) := [.index 1 (some 5), .index 2 (some 7), .index 3 (some 5), .index 4 (some 1)]
def exIdx2 : List (Op Int) := [.index 1 (some 0), .index 2 (some 0), .index 3 (some 1), .index 4 (some 0)]
def exRs : RS Int := { ids := .stream { ids := [3, 1, 2, 4] }, numids := 4, resolver := some (· + 1000) }

example : (exRs.first true).2.toOption = some (some (.obj 1003)) ∧ (exRs.first true).1.ids = exRs.ids := by decide
example : ((exRs.sort (Field.sort (run exIdx)) false none none true).2.toOption.map seq) = some [4, 1, 3, 2] := by
  decide
-- second sort by the second index keeps 4, 1 (first key 1, 5) before 2 among the second key 0
example : (((exRs.sort (Field.sort (run exIdx)) false none none true).2.toOption.bind
    (fun r => (r.sort (Field.sort (run exIdx2)) false none none true).2.toOption)).map seq) = some [4, 1, 2, 3] := by
  decide
example : ((exRs.sort (Field.sort (run exIdx)) false (some 2) none true).2.toOption.map RS.len) = some 2 := by
  decide
example : ((({ ids := .coll [9, 1], numids := 2 } : RS Int).sort (Field.sort (run exIdx)) false none none true
    ).2.toOption.map pending) = some (some [9]) := by decide

end Hyp.RSet
