import HypatiaModel.ResultSetObj
import HypatiaModel.Spec.ResultSetSpec

/-!
# C11, object level: what a kept `all()` / `iter()` object yields after `first()`

`first()` on a one-shot `ids` pulls the first id from the current iterator object and stacks a new chain object
holding it (`Tower.sync … true`).  An object the caller took BEFORE that call lies below the new top: it yields
the result set's sequence WITHOUT its first id (finding D25 - the property says `first()` consumes nothing).
A `_resolve_all` generator (resolver present) that starts AFTER the call binds the new top object and yields
the whole sequence; started before, it is an object below the top like any other.
-/
namespace Hyp.RSet.Obj
open Hyp.RSet

/-- every object of the tower that existed before a successful `first()` yields, afterwards, the stream without
its first id -/
theorem c11_kept_object_misses_the_id_first_found (t : Tower) (g g' : Stream) (level : Nat)
    (h : level ≤ t.height) : avail (t.sync true g g') level g' = g'.ids.drop 1 := by
  have : level ≠ t.height + 1 := by omega
  simp [Tower.sync, avail, this]

/-- the object that is the top of the tower (what `_resolve_all` binds when its loop starts) yields the stream -/
theorem c11_top_object_yields_the_stream (t : Tower) (g : Stream) : avail t t.height g = g.ids := by
  simp [avail]

/-- D25, concretely: `rs = ResultSet((d for d in [3, 1, 2]), 3, None); docs = rs.all(); rs.first()` - the result
set still denotes `[3, 1, 2]`, the kept object `docs` yields `[1, 2]` -/
theorem c11_d25_witness :
    ((RS.first (R := Int) { ids := .stream { ids := [3, 1, 2] }, numids := 3 } true).2
        = .ok (some (.id 3))) ∧
    Spec.seq (RS.first (R := Int) { ids := .stream { ids := [3, 1, 2] }, numids := 3 } true).1 = [3, 1, 2] ∧
    avail (Tower.sync { obj := 0, height := 0, topLen := 0 } true { ids := [3, 1, 2] } { ids := [3, 1, 2] }) 0
        { ids := [3, 1, 2] } = [1, 2] := by
  refine ⟨by rfl, by rfl, by decide⟩

/-- pulling `n` ids through the top object takes them from the front of the stream -/
theorem c11_consume_top (t : Tower) (n : Nat) (g : Stream) :
    (consume t t.height n g).2.ids = g.ids.drop n := by
  simp [consume]

/-- pulling through a lower object leaves the top object's own prefix in the stream -/
theorem c11_consume_lower (t : Tower) (level n : Nat) (g : Stream) (h : level ≠ t.height) :
    (consume t level n g).2.ids = g.ids.take t.topLen ++ (g.ids.drop t.topLen).drop n := by
  simp [consume, h]

end Hyp.RSet.Obj
