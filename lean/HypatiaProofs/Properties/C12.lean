import HypatiaProofs.Lemmas.CatalogEnd
import HypatiaProofs.Lemmas.CatalogSort
import HypatiaProofs.Properties.C04

/-!
# C12  Catalog operations fan out to every index; legacy search equals intersection

Model: `HypatiaModel/Catalog.lean`, `HypatiaModel/Legacy.lean`; vocabulary: `Spec/CatalogSpec.lean`.
A catalog `c : Cat Doc` is the ordered list of its named indexes (field / keyword / facet, any
number and mix); every index carries its discriminator as an arbitrary function `Doc → Disc`
(attribute name and callable alike; `Doc` is any type), `Disc.missing` = no value,
`Disc.reject` = a Persistent/Broken value.  `run c h` is the catalog after the history `h` of
`index_doc / reindex_doc / unindex_doc / reset` calls (an exception does not end the history).
Every statement is for all catalogs, documents, docids, histories, query arguments.
Property statements only – lemmas live in `Lemmas/Catalog*.lean`, `Lemmas/Legacy.lean`.

What the specification makes explicit (see also `Spec/CatalogSpec.lean`):
* Python's `bool` is an `int`: `True`/`False` are accepted as docids 1/0; str, float, None are rejected.
* The fan-out is not atomic: when the j-th index raises (persistent/broken value: `ValueError`;
  a `str` under a keyword index: `TypeError`) the indexes in front of it have performed the call.
* Ordered mode: only the indexes named in `index_query_order` that also have a query take part.
* No queried index → `(0, ())`, not "everything".  Without a sort index `limit` is ignored.
-/
set_option linter.unusedSectionVars false
namespace Hyp.Catalog
open Hyp Hyp.Legacy Hyp.Catalog.Spec

variable {Doc : Type}

/-! ## fan-out -/

/-- **One call fans out.**  After any catalog call every index is exactly what the same call,
made on that index alone with the value its own discriminator extracts, leaves behind
(`project`: no call when the docid is not an integer or an index in front raised). -/
theorem c12_fanout_call (c : Cat Doc) (op : Op Doc) : step c op = standalone [] c [op] :=
  step_eq_standalone c op

/-- … and the exception of the call is: `ValueError` for a non-integer docid, else that of the
first index that raises, else none. -/
theorem c12_call_exception (c : Cat Doc) (op : Op Doc) : (stepE c op).2 = raised c op :=
  stepE_err c op

/-- `index_doc` when no index raises: every index performs `index_doc` with its own value. -/
theorem c12_index_all (c : Cat Doc) (n : Int) (obj : Doc)
    (h : ∀ e ∈ c, e.ix.kind.error (e.disc obj) = none) :
    indexDoc c (.int n) obj =
      (c.map (fun e => { e with ix := (e.ix.indexDoc n (e.disc obj)).1 }), none) := by
  unfold indexDoc; simp only [assertint]
  exact fanout_all _ c (fun e he => by rw [Index.indexDoc_err]; exact h e he)

theorem c12_reindex_all (c : Cat Doc) (n : Int) (obj : Doc)
    (h : ∀ e ∈ c, e.ix.kind.error (e.disc obj) = none) :
    reindexDoc c (.int n) obj =
      (c.map (fun e => { e with ix := (e.ix.reindexDoc n (e.disc obj)).1 }), none) := by
  unfold reindexDoc; simp only [assertint]
  exact fanout_all _ c (fun e he => by unfold Index.reindexDoc; rw [Index.indexDoc_err]; exact h e he)

theorem c12_unindex_all (c : Cat Doc) (n : Int) :
    unindexDoc c (.int n) = (c.map (fun e => { e with ix := e.ix.unindexDoc n }), none) := by
  unfold unindexDoc; simp only [assertint]
  exact fanout_all _ c (fun _ _ => rfl)

theorem c12_reset_all (c : Cat Doc) :
    reset c = (c.map (fun e => { e with ix := e.ix.reset }), none) :=
  fanout_all _ c (fun _ _ => rfl)

/-- **Persistent / broken values are rejected** – by the first index whose discriminator yields
one (`ValueError`); the indexes in front of it have been updated, it and those behind it not. -/
theorem c12_persistent_rejected (pre post : Cat Doc) (e : Entry Doc) (n : Int) (obj : Doc)
    (hpre : ∀ x ∈ pre, x.ix.kind.error (x.disc obj) = none) (he : e.disc obj = .reject) :
    indexDoc (pre ++ e :: post) (.int n) obj =
      (pre.map (fun x => { x with ix := (x.ix.indexDoc n (x.disc obj)).1 }) ++ e :: post,
       some .valueError) := by
  unfold indexDoc; simp only [assertint]
  have h := fanout_raise (fun x : Entry Doc => x.ix.indexDoc n (x.disc obj)) pre post e .valueError
    (fun x hx => by rw [Index.indexDoc_err]; exact hpre x hx)
    (by rw [Index.indexDoc_err, he]; cases e.ix.kind <;> rfl)
  rw [h, he]
  have : (e.ix.indexDoc n .reject).1 = e.ix := rfl
  rw [this]

/-- **Non-integer docids are rejected** on all three entry points before any index is touched. -/
theorem c12_nonint_docid_rejected (c : Cat Doc) (obj : Doc) :
    indexDoc c .other obj = (c, some .valueError) ∧
    reindexDoc c .other obj = (c, some .valueError) ∧
    unindexDoc c .other = (c, some .valueError) := ⟨rfl, rfl, rfl⟩

/-- `bool` docids are integers (Python: `isinstance(True, int)`): `True` is docid 1, `False` 0. -/
theorem c12_bool_docid (c : Cat Doc) (b : Bool) (obj : Doc) :
    indexDoc c (.bool b) obj = indexDoc c (.int (if b then 1 else 0)) obj ∧
    reindexDoc c (.bool b) obj = reindexDoc c (.int (if b then 1 else 0)) obj ∧
    unindexDoc c (.bool b) = unindexDoc c (.int (if b then 1 else 0)) := ⟨rfl, rfl, rfl⟩

/-- **Histories fan out.**  After any history of catalog calls every index is in the state of
that index run on its own with its own projected history. -/
theorem c12_fanout_history (c : Cat Doc) (h : List (Op Doc)) : run c h = standalone [] c h :=
  run_eq_standalone c h

/-- the same, read at one position of the catalog -/
theorem c12_fanout_entry (pre post : Cat Doc) (e : Entry Doc) (h : List (Op Doc)) :
    ∃ pre' post', pre'.length = pre.length ∧
      run (pre ++ e :: post) h =
        pre' ++ { e with ix := runOps e.ix (h.flatMap (project (pre.map cfgOf) e.disc)) } :: post' := by
  rw [run_eq_standalone, standalone_append]
  simp only [List.nil_append]
  exact ⟨_, _, standalone_length _ _ _, rfl⟩

/-- the calls an index receives, as a history of the stand-alone field / keyword / facet model
(C01, C02/C06, C13 apply to the right-hand sides) -/
theorem c12_field_history (ops : List IxOp) :
    runOps (.field Field.init) ops = .field (Field.run (ops.filterMap fieldOp)) := runOps_field ops _

theorem c12_keyword_history (ops : List IxOp) :
    runOps (.keyword Keyword.init) ops = .keyword (Keyword.run (ops.filterMap kwOp)) :=
  runOps_keyword ops _

theorem c12_facet_history (F : List Facet.Facet) (ops : List IxOp) :
    runOps (.facet (Facet.init F)) ops = .facet (Facet.run F (ops.filterMap facetOp)) :=
  runOps_facet ops _

/-- keys and order of the catalog never change through document calls -/
theorem c12_names_stable (c : Cat Doc) (h : List (Op Doc)) :
    (run c h).map (·.name) = c.map (·.name) := by
  rw [run_eq_standalone]; exact standalone_names _ _ _

/-- **An index stored under a name reports that name**: after any sequence of `__setitem__`
calls every index's `__name__` is the key it is stored under, and keys are distinct. -/
theorem c12_setitem_name (items : List (String × Entry Doc)) :
    Named (items.foldl (fun c p => setitem c p.1 p.2) ([] : Cat Doc)) := by
  suffices ∀ c : Cat Doc, Named c → Named (items.foldl (fun c p => setitem c p.1 p.2) c) from
    this [] named_nil
  induction items with
  | nil => intro c h; exact h
  | cons p ps ih => intro c h; exact ih _ (named_setitem h p.1 p.2)

theorem c12_setitem_get (c : Cat Doc) (name : String) (e : Entry Doc) :
    ∃ e', get (setitem c name e) name = some e' ∧ e'.ix = e.ix ∧ e'.nameAttr = some name :=
  get_setitem_same c name e

/-! ## legacy search -/

/-- **Unordered mode.**  When every queried index answers (`sets` = the per-index answers in
call order), `search` returns `(0, ())` if their intersection `I` is empty – in particular when
nothing is queried – and otherwise `sort I` (which is `(|I|, I)` without a sort index,
`c12_sort_without_index`).  `I` has no duplicates when the answers have none, so `|I|` is its
length. -/
theorem c12_search_unordered (c : Cat Doc) (a : SearchArgs) (sets : List IdSet)
    (horder : a.order = none) (hres : a.terms.map (resolve c) = sets.map Except.ok) :
    ∃ I : IdSet, (∀ d, d ∈ I ↔ sets ≠ [] ∧ ∀ s ∈ sets, d ∈ s) ∧
      ((∀ s ∈ sets, s.Nodup) → I.Nodup) ∧
      search c a = if I = [] then .ok (0, .ids []) else sort c I a.toSortArgs :=
  ⟨unorderedAnswer sets, mem_unorderedAnswer sets, nodup_unorderedAnswer sets,
    search_unordered_eq c a sets horder hres⟩

/-- **Ordered mode**: the same with the answers of the *applicable* indexes – those named in
`index_query_order` that have a query argument, in that order. -/
theorem c12_search_ordered (c : Cat Doc) (a : SearchArgs) (order : List String) (sets : List IdSet)
    (horder : a.order = some order)
    (hres : (applicable a.terms order).map (resolve c) = sets.map Except.ok) :
    ∃ I : IdSet, (∀ d, d ∈ I ↔ sets ≠ [] ∧ ∀ s ∈ sets, d ∈ s) ∧
      ((∀ s ∈ sets, s.Nodup) → I.Nodup) ∧
      search c a = if I = [] then .ok (0, .ids []) else sort c I a.toSortArgs :=
  ⟨orderedAnswer sets, mem_orderedAnswer sets, nodup_orderedAnswer sets,
    search_ordered_eq c a order sets horder hres⟩

/-- the specification's `interAll` is that intersection -/
theorem c12_interAll (sets : List IdSet) (d : Int) :
    d ∈ Spec.interAll sets ↔ sets ≠ [] ∧ ∀ s ∈ sets, d ∈ s := mem_interAll sets d

/-- without a sort index: `(|I|, I)`, whatever `limit` and `reverse` are -/
theorem c12_sort_without_index (c : Cat Doc) (I : IdSet) (a : SortArgs) (h : a.sortIndex = none) :
    sort c I a = .ok (I.length, .ids I) := sort_no_index c I a h

/-- with a field index as sort index: `num = min(|I|, limit)` (`|I|` without a limit), the
result is what the index's `sort` produced: ids of `I`, at most `limit` of them.  (`limit < 1`
is a `ValueError`; an index holding no value raises `Unsortable` for a non-empty `I`.) -/
theorem c12_sort_num (c : Cat Doc) (I : IdSet) (a : SortArgs) (name : String) (e : Entry Doc)
    (s : Field.State Int) (hs : a.sortIndex = some name) (hg : get c name = some e)
    (hix : e.ix = .field s) (hl : ∀ l, a.limit = some l → 1 ≤ l) (hne : I = [] ∨ s.numDocs ≠ 0) :
    ∃ l r, sort c I a = .ok (Spec.num I.length a.sortIndex a.limit, .seq l r) ∧ (∀ d ∈ l, d ∈ I) ∧
      (∀ n, a.limit = some n → l.length ≤ n.toNat) :=
  sort_field c I a name e s hs hg hix hl hne

theorem c12_num_eq_min (size : Nat) (name : String) (l : Int) :
    Spec.num size (some name) (some l) = min size l.toNat ∧ Spec.num size (some name) none = size ∧
      Spec.num size none (some l) = size := ⟨rfl, rfl, rfl⟩

/-- `__call__ = query`, and `query` is `sort` applied to the query object's result -/
theorem c12_call_eq_query (c : Cat Doc) (results : IdSet) (a : SortArgs) :
    call c results a = query c results a ∧ query c results a = sort c results a := ⟨rfl, rfl⟩

/-! ## the legacy argument forms mean what the specification says -/

/-- `FieldIndex.apply`, after any history of the index: value → equal, 2-tuple → inclusive range,
`RangeValue` → range with open ends, list → any member, dict → any / all (`and`; all of nothing
is nothing), no `'query'` key → `KeyError`. -/
theorem c12_field_legacy (h : List (Field.Op Int)) (q : LQ Int) :
    SameAnswer (fieldApply (Field.run h) q) (fieldAnswer (Field.Spec.table h) q) :=
  fieldApply_spec (Field.run_inv h) q

/-- `KeywordIndex.apply`: default operator `and`; a `str` is one keyword; any other operator and a
`RangeValue` are a `TypeError`. -/
theorem c12_keyword_legacy (h : List (Keyword.Op Int)) (q : LQ Int) :
    SameAnswer (kwApply (Keyword.run h).view q) (kwAnswer (Keyword.Spec.table h) q) :=
  kwApply_spec (Keyword.run_viewOK h) q

/-- `FacetIndex` inherits `apply`: keywords are the configured facets a document is listed under -/
theorem c12_facet_legacy (F : List Facet.Facet) (h : List Facet.Op) (q : LQ Facet.Facet) :
    SameAnswer (kwApply (Facet.run F h).ks.view q)
      (kwAnswer (Facet.Spec.kwTable (Keyword.dedup F) (Facet.Spec.table h)) q) :=
  kwApply_spec (Facet.facet_run_viewOK F h) q

/-! ## end to end -/

/-- **Search over a catalog after any history = intersection of the specification's per-index
answers.**  `c0`: any catalog of newly created indexes; `h`: any history; the per-index answer
`specResolve c0 h (name, q)` is computed from the document table of that index's *own projected
history* (`tableAnswer`).  If these answers exist (`specSets`, no exception), the unordered search
returns `(0, ())` when their intersection is empty and otherwise `sort I` with `I` duplicate-free
and `d ∈ I ↔ d ∈ every answer` (at least one index queried). -/
theorem c12_search_meaning_unordered (c0 : Cat Doc) (hfresh : ∀ e ∈ c0, Fresh e.ix)
    (h : List (Op Doc)) (a : SearchArgs) (specSets : List IdSet) (horder : a.order = none)
    (hspec : a.terms.map (specResolve c0 h) = specSets.map Except.ok) :
    ∃ I : IdSet, I.Nodup ∧ (∀ d, d ∈ I ↔ specSets ≠ [] ∧ ∀ s ∈ specSets, d ∈ s) ∧
      search (run c0 h) a = if I = [] then .ok (0, .ids []) else sort (run c0 h) I a.toSortArgs := by
  rw [run_eq_standalone]
  obtain ⟨sets, h1, h2, h3, h4⟩ := answers_of_spec (resolve (standalone [] c0 h)) (specResolve c0 h)
    a.terms specSets hspec
    (fun t _ => (resolve_standalone_spec h t c0 [] hfresh).1)
    (fun t _ => (resolve_standalone_spec h t c0 [] hfresh).2)
  obtain ⟨I, hI, hnd, hs⟩ := c12_search_unordered (standalone [] c0 h) a sets horder h1
  refine ⟨I, hnd h2, ?_, hs⟩
  intro d
  rw [hI, h4 d]
  constructor
  · rintro ⟨hne, hall⟩; exact ⟨fun he => hne (h3.mpr he), hall⟩
  · rintro ⟨hne, hall⟩; exact ⟨fun he => hne (h3.mp he), hall⟩

/-- the ordered mode, end to end: over the indexes named in `index_query_order` that are queried -/
theorem c12_search_meaning_ordered (c0 : Cat Doc) (hfresh : ∀ e ∈ c0, Fresh e.ix)
    (h : List (Op Doc)) (a : SearchArgs) (order : List String) (specSets : List IdSet)
    (horder : a.order = some order)
    (hspec : (applicable a.terms order).map (specResolve c0 h) = specSets.map Except.ok) :
    ∃ I : IdSet, I.Nodup ∧ (∀ d, d ∈ I ↔ specSets ≠ [] ∧ ∀ s ∈ specSets, d ∈ s) ∧
      search (run c0 h) a = if I = [] then .ok (0, .ids []) else sort (run c0 h) I a.toSortArgs := by
  rw [run_eq_standalone]
  obtain ⟨sets, h1, h2, h3, h4⟩ := answers_of_spec (resolve (standalone [] c0 h)) (specResolve c0 h)
    (applicable a.terms order) specSets hspec
    (fun t _ => (resolve_standalone_spec h t c0 [] hfresh).1)
    (fun t _ => (resolve_standalone_spec h t c0 [] hfresh).2)
  obtain ⟨I, hI, hnd, hs⟩ := c12_search_ordered (standalone [] c0 h) a order sets horder h1
  refine ⟨I, hnd h2, ?_, hs⟩
  intro d
  rw [hI, h4 d]
  constructor
  · rintro ⟨hne, hall⟩; exact ⟨fun he => hne (h3.mpr he), hall⟩
  · rintro ⟨hne, hall⟩; exact ⟨fun he => hne (h3.mp he), hall⟩

/-! ## composed with C07: the sort index's own `sort`, every `sort_type`

`sortM / searchM / queryM / callM` (`HypatiaModel/CatalogSort.lean`) are `CatalogQuery.sort / search / query /
__call__` calling the *model of `FieldIndex.sort`* (C07: limit check, empty request, empty index, the
`sort_type` dispatch with its heuristics, forward scan / n-best / timsort) instead of its contract. -/

/-- the two models share the loops of `search`: `search` is `searchSet` followed by `self.sort`, and `searchM`
is the same `searchSet` followed by the composed `sortM` (by definition) -/
theorem c12_search_is_set_then_sort (c : Cat Doc) (a : SearchArgs) (st : Option Field.SortType) :
    (search c a = (do
      match ← searchSet c a with
      | none => pure (0, .ids [])
      | some result => sort c result a.toSortArgs)) ∧
    (searchM c a st = (do
      match ← searchSet c a with
      | none => pure (0, .ids [])
      | some result => sortM c result a.toSortArgs st)) :=
  ⟨search_eq_searchSet c a, rfl⟩

/-- **`CatalogQuery.sort` composed with C07.**  The sort index is the field-index model after *any* history
`hf`; `I` any set of distinct ids; every `sort_type`, `reverse`, `limit`.  When the call returns, `num` is
`min(|I|, limit)` (`|I|` without a limit) and iterating the result shows exactly what C07 specifies over the
history's document table: each id once, only members of `I` that have a value, ordered by value (descending
when reversed), `min(limit, #sortable)` of them, nothing omitted sorts before anything delivered; `Unsortable`
follows iff some member of `I` has no value and the limit was not filled – after all sortable ids. -/
theorem c12_sort_composed (c : Cat Doc) (I : IdSet) (hnd : I.Nodup) (a : SortArgs)
    (st : Option Field.SortType) (name : String) (e : Entry Doc) (hf : List (Field.Op Int))
    (hs : a.sortIndex = some name) (hg : get c name = some e) (hix : e.ix = .field (Field.run hf))
    (n : Nat) (res : ResultM) (hr : sortM c I a st = .ok (n, res)) :
    n = Spec.num I.length a.sortIndex a.limit ∧
    ∃ r g, res = .sorted r ∧ r.observe = some g ∧
      Field.Spec.SortOK (Field.Spec.table hf) I a.reverse (a.limit.map Int.toNat) g.ids ∧
      g.raised.isSome = Field.Spec.shouldRaise (Field.Spec.table hf) I (a.limit.map Int.toNat) true ∧
      (g.raised.isSome = true → ∀ d ∈ I, Field.Spec.sortable (Field.Spec.table hf) d = true → d ∈ g.ids) :=
  sortM_field_ok c I hnd a st name e hf hs hg hix n res hr

/-- …and the call itself raises `ValueError` exactly for a limit below 1 or – request and index non-empty –
a `sort_type` that cannot run with the flags, `Unsortable` exactly for a non-empty request on an index
without any value -/
theorem c12_sort_composed_errors (c : Cat Doc) (I : IdSet) (a : SortArgs) (st : Option Field.SortType)
    (name : String) (e : Entry Doc) (hf : List (Field.Op Int)) (hs : a.sortIndex = some name)
    (hg : get c name = some e) (hix : e.ix = .field (Field.run hf)) :
    (sortM c I a st = .error .valueError ↔
      Field.Spec.badLimit a.limit = true ∨
        (I ≠ [] ∧ (∃ d v, Field.Spec.valueOf (Field.Spec.table hf) d = some v) ∧
          Field.Spec.rejects a.reverse a.limit st = true)) ∧
    (sortM c I a st = .error .unsortable ↔
      Field.Spec.badLimit a.limit = false ∧ I ≠ [] ∧
        ¬ ∃ d v, Field.Spec.valueOf (Field.Spec.table hf) d = some v) :=
  sortM_field_errors c I a st name e hf hs hg hix

theorem c12_sort_composed_without_index (c : Cat Doc) (I : IdSet) (a : SortArgs)
    (st : Option Field.SortType) (h : a.sortIndex = none) : sortM c I a st = .ok (I.length, .ids I) :=
  sortM_no_index c I a st h

/-- the history of the sort index inside a catalog history: what the index named `name` (created fresh)
receives from the catalog calls `h` -/
def sortHistory (pre : Cat Doc) (e : Entry Doc) (h : List (Op Doc)) : List (Field.Op Int) :=
  (h.flatMap (project (pre.map cfgOf) e.disc)).filterMap fieldOp

/-- **Sorted search, end to end (unordered mode).**  `c0 = pre ++ e :: post`: any catalog of newly created
indexes, `e` a field index stored under `name` (no index in front has that name); `h`: any history of catalog
calls; `sort_index = name`, any `limit`, `reverse`, `sort_type`.  With `I` the intersection of the
specification's per-index answers: `searchM` returns `(0, ())` when `I` is empty and otherwise `(num, result)`
with `num = min(|I|, limit)` and `result` = the members of `I` that have a value in the sort index, ordered by
that value, cut at `limit` (C07's clauses over the table of the sort index's own projected history). -/
theorem c12_search_sorted_unordered (pre post : Cat Doc) (e : Entry Doc) (name : String)
    (hfresh : ∀ x ∈ pre ++ e :: post, Fresh x.ix) (hpre : ∀ x ∈ pre, x.name ≠ name) (he : e.name = name)
    (hfield : e.ix = .field Field.init)
    (h : List (Op Doc)) (a : SearchArgs) (st : Option Field.SortType) (specSets : List IdSet)
    (horder : a.order = none) (hsi : a.sortIndex = some name)
    (hspec : a.terms.map (specResolve (pre ++ e :: post) h) = specSets.map Except.ok) :
    ∃ I : IdSet, I.Nodup ∧ (∀ d, d ∈ I ↔ specSets ≠ [] ∧ ∀ s ∈ specSets, d ∈ s) ∧
      (I = [] → searchM (run (pre ++ e :: post) h) a st = .ok (0, .ids [])) ∧
      (I ≠ [] → ∀ n res, searchM (run (pre ++ e :: post) h) a st = .ok (n, res) →
        n = Spec.num I.length (some name) a.limit ∧
        ∃ r g, res = .sorted r ∧ r.observe = some g ∧
          Field.Spec.SortOK (Field.Spec.table (sortHistory pre e h)) I a.reverse (a.limit.map Int.toNat) g.ids ∧
          g.raised.isSome =
            Field.Spec.shouldRaise (Field.Spec.table (sortHistory pre e h)) I (a.limit.map Int.toNat) true) := by
  obtain ⟨e', hg, hix⟩ := get_run_field pre post e name h hpre he hfield
  have hrun := run_eq_standalone (pre ++ e :: post) h
  obtain ⟨sets, h1, h2, h3, h4⟩ := answers_of_spec (resolve (standalone [] (pre ++ e :: post) h))
    (specResolve (pre ++ e :: post) h) a.terms specSets hspec
    (fun t _ => (resolve_standalone_spec h t (pre ++ e :: post) [] hfresh).1)
    (fun t _ => (resolve_standalone_spec h t (pre ++ e :: post) [] hfresh).2)
  rw [← hrun] at h1
  have hset := searchSet_unordered (run (pre ++ e :: post) h) a sets horder h1
  have hm := searchM_of_set (run (pre ++ e :: post) h) a st _ hset
  refine ⟨unorderedAnswer sets, nodup_unorderedAnswer sets h2, ?_, ?_, ?_⟩
  · intro d
    rw [mem_unorderedAnswer, h4 d]
    constructor
    · rintro ⟨hne, hall⟩; exact ⟨fun he => hne (h3.mpr he), hall⟩
    · rintro ⟨hne, hall⟩; exact ⟨fun he => hne (h3.mp he), hall⟩
  · intro hI; rw [hm, if_pos hI]
  · intro hI n res hr
    rw [hm, if_neg hI] at hr
    obtain ⟨hn, r, g, e1, e2, e3, e4, _⟩ := sortM_field_ok (run (pre ++ e :: post) h) _
      (nodup_unorderedAnswer sets h2) a.toSortArgs st name e' _ hsi hg hix n res hr
    exact ⟨by rw [hn]; show Spec.num _ a.sortIndex a.limit = _; rw [hsi], r, g, e1, e2, e3, e4⟩

/-- the ordered mode (`index_query_order`), end to end -/
theorem c12_search_sorted_ordered (pre post : Cat Doc) (e : Entry Doc) (name : String)
    (hfresh : ∀ x ∈ pre ++ e :: post, Fresh x.ix) (hpre : ∀ x ∈ pre, x.name ≠ name) (he : e.name = name)
    (hfield : e.ix = .field Field.init)
    (h : List (Op Doc)) (a : SearchArgs) (st : Option Field.SortType) (order : List String)
    (specSets : List IdSet) (horder : a.order = some order) (hsi : a.sortIndex = some name)
    (hspec : (applicable a.terms order).map (specResolve (pre ++ e :: post) h) = specSets.map Except.ok) :
    ∃ I : IdSet, I.Nodup ∧ (∀ d, d ∈ I ↔ specSets ≠ [] ∧ ∀ s ∈ specSets, d ∈ s) ∧
      (I = [] → searchM (run (pre ++ e :: post) h) a st = .ok (0, .ids [])) ∧
      (I ≠ [] → ∀ n res, searchM (run (pre ++ e :: post) h) a st = .ok (n, res) →
        n = Spec.num I.length (some name) a.limit ∧
        ∃ r g, res = .sorted r ∧ r.observe = some g ∧
          Field.Spec.SortOK (Field.Spec.table (sortHistory pre e h)) I a.reverse (a.limit.map Int.toNat) g.ids ∧
          g.raised.isSome =
            Field.Spec.shouldRaise (Field.Spec.table (sortHistory pre e h)) I (a.limit.map Int.toNat) true) := by
  obtain ⟨e', hg, hix⟩ := get_run_field pre post e name h hpre he hfield
  have hrun := run_eq_standalone (pre ++ e :: post) h
  obtain ⟨sets, h1, h2, h3, h4⟩ := answers_of_spec (resolve (standalone [] (pre ++ e :: post) h))
    (specResolve (pre ++ e :: post) h) (applicable a.terms order) specSets hspec
    (fun t _ => (resolve_standalone_spec h t (pre ++ e :: post) [] hfresh).1)
    (fun t _ => (resolve_standalone_spec h t (pre ++ e :: post) [] hfresh).2)
  rw [← hrun] at h1
  have hset := searchSet_ordered (run (pre ++ e :: post) h) a order sets horder h1
  have hm := searchM_of_set (run (pre ++ e :: post) h) a st _ hset
  refine ⟨orderedAnswer sets, nodup_orderedAnswer sets h2, ?_, ?_, ?_⟩
  · intro d
    rw [mem_orderedAnswer, h4 d]
    constructor
    · rintro ⟨hne, hall⟩; exact ⟨fun he => hne (h3.mpr he), hall⟩
    · rintro ⟨hne, hall⟩; exact ⟨fun he => hne (h3.mp he), hall⟩
  · intro hI; rw [hm, if_pos hI]
  · intro hI n res hr
    rw [hm, if_neg hI] at hr
    obtain ⟨hn, r, g, e1, e2, e3, e4, _⟩ := sortM_field_ok (run (pre ++ e :: post) h) _
      (nodup_orderedAnswer sets h2) a.toSortArgs st name e' _ hsi hg hix n res hr
    exact ⟨by rw [hn]; show Spec.num _ a.sortIndex a.limit = _; rw [hsi], r, g, e1, e2, e3, e4⟩

/-- **`query` / `__call__` composed with C07.**  `I`: the distinct ids the query object's `_apply` returned
(C04; `c12_catalog_is_model_catalog` for what it is evaluated over).  With a field sort index after any history
`query` / `__call__` return `(min(|I|, limit), the sortable members of I by value)`. -/
theorem c12_query_sorted (c : Cat Doc) (I : IdSet) (hnd : I.Nodup) (a : SortArgs)
    (st : Option Field.SortType) (name : String) (e : Entry Doc) (hf : List (Field.Op Int))
    (hs : a.sortIndex = some name) (hg : get c name = some e) (hix : e.ix = .field (Field.run hf))
    (n : Nat) (res : ResultM) (hr : callM c I a st = .ok (n, res)) :
    callM c I a st = queryM c I a st ∧ queryM c I a st = sortM c I a st ∧
    n = Spec.num I.length a.sortIndex a.limit ∧
    ∃ r g, res = .sorted r ∧ r.observe = some g ∧
      Field.Spec.SortOK (Field.Spec.table hf) I a.reverse (a.limit.map Int.toNat) g.ids ∧
      g.raised.isSome = Field.Spec.shouldRaise (Field.Spec.table hf) I (a.limit.map Int.toNat) true :=
  by
    obtain ⟨hn, r, g, e1, e2, e3, e4, _⟩ := sortM_field_ok c I hnd a st name e hf hs hg hix n res hr
    exact ⟨rfl, rfl, hn, r, g, e1, e2, e3, e4⟩

/-- **The catalog after any history of catalog calls is a catalog of index models after histories** (fan-out,
`c12_fanout_history`, read by `hypatia.query`): there are per-index histories `hs` – the projected ones – with
`mcatOf (run c0 h) = modelCatalog hs`; hence (C04, `c04_end_to_end_no_text`) every query tree evaluated over the
catalog's indexes has the outcome the specification tables of those histories give. -/
theorem c12_catalog_is_model_catalog (c0 : Cat Doc) (hfresh : ∀ e ∈ c0, Fresh e.ix) (h : List (Op Doc))
    (names : List Facet.Facet) :
    ∃ hs : List Query.IndexH, mcatOf names (run c0 h) = Query.modelCatalog hs ∧
      ∀ q : Query.Q, Query.ResEq (Query.applyQM (mcatOf names (run c0 h)) q)
        (Query.applyQ (Query.specCatalog hs) q) := by
  rw [run_eq_standalone]
  obtain ⟨hs, h1, h2⟩ := mcatOf_standalone names h c0 [] hfresh
  refine ⟨hs, h1, fun q => ?_⟩
  rw [h1]
  exact Query.applyQM_refines hs (Query.histsOK_of_noText hs h2) q (Query.leavesListed_of_noText hs h2 q)

/-- **`query.execute().sort(index, …)`**: the result set of a query evaluated over the catalog's index models
(`executeM`: `ResultSet(ids, len(ids), resolver)`, C04/C11), sorted through `ResultSet.sort` (C11) by a field
index model after any history (C07): `len` = `min(|I|, limit)`, iteration yields the sortable members of `I`
ordered by value and ends with `Unsortable` exactly when due, the result is marked STABLE. -/
theorem c12_resultset_sort_composed {R : Type} (c : Cat Doc) (names : List Facet.Facet) (q : Query.Q)
    (resolver : Option (Int → R)) (rs : RSet.RS R) (hq : executeM names c q resolver = .ok rs)
    (hnd : (RSet.Spec.seq rs).Nodup) (hf : List (Field.Op Int)) (reverse : Bool) (limit : Option Int)
    (st : Option Field.SortType) (raiseU : Bool) (rs' : RSet.RS R)
    (hs : (rs.sort (Field.sort (Field.run hf)) reverse limit st raiseU).2 = .ok rs') :
    (∃ I, Query.applyQM (mcatOf names c) q = .ok I ∧ RSet.Spec.seq rs = I ∧ rs.len = I.length) ∧
    rs'.len = Field.Spec.cut (limit.map Int.toNat) (RSet.Spec.seq rs).length ∧
    Field.Spec.SortOK (Field.Spec.table hf) (RSet.Spec.seq rs) reverse (limit.map Int.toNat) (RSet.Spec.seq rs') ∧
    (RSet.Spec.pending rs').isSome =
      Field.Spec.shouldRaise (Field.Spec.table hf) (RSet.Spec.seq rs) (limit.map Int.toNat) raiseU ∧
    rs'.sortType = some .stable := by
  unfold executeM at hq
  cases hI : Query.applyQM (mcatOf names c) q with
  | error e => rw [hI] at hq; cases hq
  | ok I =>
    rw [hI] at hq
    simp only [Except.map, Except.ok.injEq] at hq
    subst hq
    obtain ⟨h1, h2, h3, _, h5, _⟩ := rs_sort_field hf I hnd resolver reverse limit st raiseU rs' hs
    exact ⟨⟨I, rfl, rfl, rfl⟩, h1, h2, h3, h5⟩

/-! ## non-vacuity

A catalog of a field index on `x` and a keyword index on `k` (documents: `(x?, k?)`, a `none`
component = attribute missing, `x = some none` would be a persistent value – here encoded by
`Option (Option Int)`): a history with a missing attribute, a bool docid, a persistent value
(rejected after nothing was touched because the field index comes first), a non-int docid, an
unindex; then searches in both modes, equal-sized postings under `and` (D1), the empty `and`
list (D18), ordered mode without applicable index (D16), and a sorted/limited search. -/
section nonvac
abbrev XDoc := Option (Option Int) × Option (List Int)

def c0 : Cat XDoc :=
  setitem (setitem [] "f"
    { name := "", nameAttr := none, ix := .field Field.init,
      disc := fun d => match d.1 with | none => .missing | some none => .reject | some (some v) => .value (.int v) })
    "k"
    { name := "", nameAttr := none, ix := .keyword Keyword.init,
      disc := fun d => match d.2 with | none => .missing | some l => .value (.kws l) }

def hist : List (Op XDoc) :=
  [.index (.int 0) (some (some 3), some [1]), .index (.int 1) (some (some 5), some [1]),
   .index (.int 2) (some (some 8), some [0]), .index (.bool true) (some (some 5), some [1, 0]),
   .index (.int 3) (none, some [0, 1]), .index (.int 4) (some none, some [1]),
   .index .other (some (some 3), some [1]), .reindex (.int 2) (some (some 3), some [0, 1]),
   .unindex (.int 0), .index (.int 5) (some (some 3), none)]

def ids : Except Err (Nat × Result) → Option (Nat × List Int)
  | .ok (n, .ids s) => some (n, s)
  | .ok (n, .seq l _) => some (n, l)
  | .error _ => none

example : (run c0 hist).map (·.nameAttr) = [some "f", some "k"] := by decide

example :
    let c := run c0 hist
    ids (search c { terms := [("f", .int (.plain (.bare (.val 3)))), ("k", .int (.plain (.seq [.val 1])))] })
        = some (1, [2]) ∧
    ids (search c { terms := [("f", .int (.plain (.pair 3 5))), ("k", .int (.dict (some .or) (some (.seq [.val 0, .val 1]))))],
                    order := some ["k", "f"] }) = some (2, [1, 2]) ∧
    ids (search c { terms := [("f", .int (.dict (some .and) (some (.seq [.val 3, .val 5]))))] }) = some (0, []) ∧
    ids (search c { terms := [("k", .int (.plain (.seq [.val 1]))), ("f", .int (.dict (some .and) (some (.seq []))))],
                    order := some ["k", "f"] }) = some (0, []) ∧
    ids (search c { terms := [("f", .int (.plain (.bare (.val 3))))], order := some ["k"] }) = some (0, []) ∧
    ids (search c { terms := [("f", .int (.plain (.bare (.range none none))))], sortIndex := some "f",
                    limit := some 2, reverse := true }) = some (2, [1, 2]) := by decide

/-- the hypotheses of the end-to-end theorems are met: the indexes are fresh, the specification's
per-index answers exist -/
example : ∀ e ∈ c0, Fresh e.ix := by
  intro e he
  simp only [c0, setitem] at he
  simp at he
  rcases he with rfl | rfl <;> rfl

example : [("f", QArg.int (.plain (.bare (.val 3)))), ("k", .int (.plain (.seq [.val 1])))].map
    (specResolve c0 hist) = [[5, 2], [2, 3, 1]].map Except.ok := by rfl

/-- the composed model on the same catalog: sorted, limited search through the sort index's own `sort` (forced
timsort / n-best – the automatic choice goes through floating-point heuristics `decide` does not evaluate),
document 3 has no value in `f`: `Unsortable` follows the sortable ids when the limit is not filled -/
def idsM : Except Err (Nat × ResultM) → Option (Nat × List Int × Bool)
  | .ok (n, .ids s) => some (n, s, false)
  | .ok (n, .sorted r) => (r.observe).map (fun g => (n, g.ids, g.raised.isSome))
  | .error _ => none

example :
    let c := run c0 hist
    idsM (searchM c { terms := [("f", .int (.plain (.bare (.range none none))))], sortIndex := some "f",
                      limit := some 2, reverse := true } (some .timsort)) = some (2, [1, 2], false) ∧
    idsM (searchM c { terms := [("k", .int (.dict (some .or) (some (.seq [.val 0, .val 1]))))], sortIndex := some "f",
                      limit := some 9 } (some .nbest)) = some (3, [2, 1], true) ∧
    idsM (searchM c { terms := [("k", .int (.dict (some .or) (some (.seq [.val 0, .val 1]))))], sortIndex := some "f",
                      limit := some 0 } none) = none := by decide

end nonvac

end Hyp.Catalog
