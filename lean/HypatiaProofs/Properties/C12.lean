import HypatiaModel.Spec.CatalogSpec
