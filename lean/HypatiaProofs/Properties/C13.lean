import HypatiaProofs.Lemmas.FacetCounts

/-!
# C13  Facet index: hierarchical membership and exact facet counts

`run F0 h` is the model state of a `FacetIndex` configured with the facet list `F0` (any
list of facet names, duplicates allowed) after history `h` (`index`/`reindex` with a list of
facet paths or without a value, `unindex`, `reset`, `optimize()`, threshold changes);
`table h` maps a docid to the paths last supplied.  A facet name / path is its list of
':'-separated segments; `isPrefix f p` = "`f` is a ':'-prefix of, or equal to, `p`".
Every statement is for all `F0`, histories, docids, facets, docid collections and omit lists.
Property statements only – lemmas live in `Lemmas/Facet.lean`, `Lemmas/FacetCounts.lean`.
-/
set_option linter.unusedSectionVars false
namespace Hyp.Facet
open Hyp Hyp.Keyword Hyp.Keyword.Spec Hyp.Facet.Spec

/-- Refinement: the inherited keyword-index state (representation erased) represents the
table docid ↦ {configured facets that are a ':'-prefix of one of the current paths}. -/
theorem c13_refinement (F0 : List Facet) (h : List Op) :
    (run F0 h).facets = dedup F0 ∧
      Keyword.Inv (erase (run F0 h).ks) (kwTable (dedup F0) (table h)) := run_finv F0 h

/-- **Membership**: a document is listed under exactly the configured facets that are a
':'-prefix (or the whole) of one of its current paths. -/
theorem c13_membership (F0 : List Facet) (h : List Op) (d : Int) (f : Facet) :
    f ∈ (documentRepr (run F0 h).ks d).getD [] ↔
      f ∈ F0 ∧ ∃ p ∈ pathsOf (table h) d, isPrefix f p = true := by
  have := (run_finv F0 h).2.rev_mem d f
  rw [kwOf_kwTable, mem_listed, mem_dedup] at this
  exact this

/-- Eq: exactly the documents listed under `f` -/
theorem c13_eq (F0 : List Facet) (h : List Op) (f : Facet) (d : Int) :
    d ∈ Keyword.applyEq (run F0 h).ks f ↔
      f ∈ F0 ∧ ∃ p ∈ pathsOf (table h) d, isPrefix f p = true := by
  rw [mem_applyEq (facet_run_viewOK F0 h), kwOf_kwTable, mem_listed, mem_dedup]

theorem c13_any (F0 : List Facet) (h : List Op) (fs : List Facet) (d : Int) :
    d ∈ Keyword.applyAny (run F0 h).ks fs ↔
      ∃ f ∈ fs, f ∈ listed (dedup F0) (pathsOf (table h) d) := by
  rw [mem_applyAny (facet_run_viewOK F0 h)]; simp only [kwOf_kwTable]

theorem c13_all (F0 : List Facet) (h : List Op) (fs : List Facet) (hne : fs ≠ []) (d : Int) :
    d ∈ Keyword.applyAll (run F0 h).ks fs ↔
      ∀ f ∈ fs, f ∈ listed (dedup F0) (pathsOf (table h) d) := by
  rw [mem_applyAll (facet_run_viewOK F0 h)]; simp only [kwOf_kwTable, hne, ne_eq, not_false_eq_true, true_and]

/-- the ids the index knows: withdrawn, or listed under at least one facet -/
theorem c13_docids (F0 : List Facet) (h : List Op) (d : Int) :
    d ∈ Keyword.docids (run F0 h).ks ↔
      AMap.get (table h) d = some none ∨ listed (dedup F0) (pathsOf (table h) d) ≠ [] := by
  rw [mem_docids (facet_run_viewOK F0 h), known_iff]
  unfold Known
  rw [withdrawn_kwTable, kwOf_kwTable]

theorem c13_noteq (F0 : List Facet) (h : List Op) (f : Facet) (d : Int) :
    d ∈ Keyword.applyNotEq (run F0 h).ks f ↔
      (AMap.get (table h) d = some none ∨ listed (dedup F0) (pathsOf (table h) d) ≠ []) ∧
        f ∉ listed (dedup F0) (pathsOf (table h) d) := by
  rw [mem_applyNotEq (facet_run_viewOK F0 h), known_iff]
  unfold Known
  rw [withdrawn_kwTable, kwOf_kwTable]

/-- all six index entry points compute the keyword semantics over docid ↦ listed facets -/
theorem c13_index_entry (F0 : List Facet) (h : List Op) (q : QObj Facet) (d : Int) :
    d ∈ QObj.applyIndex (run F0 h).ks q ↔ d ∈ Keyword.Spec.sem (kwTable (dedup F0) (table h)) q :=
  applyIndex_sem (facet_run_viewOK F0 h) q d

/-- a document whose paths match no configured facet is neither indexed nor not-indexed -/
theorem c13_unmatched_unknown (F0 : List Facet) (h : List Op) (d : Int) (paths : List Facet)
    (hp : AMap.get (table h) d = some (some paths)) (hn : listed (dedup F0) paths = []) :
    d ∉ Keyword.docids (run F0 h).ks := by
  rw [c13_docids]
  have : pathsOf (table h) d = paths := by simp [pathsOf, hp]
  rw [this, hn, hp]; simp

/-- **Counts**: for every facet, `counts(docids, omit_facets)` holds the number of entries of
`docids` listed under it – unless the facet is omitted (a ':'-prefix of an `omit_facets`
entry) or that number is zero, in which case the facet is absent.  (`countOf` is zero for a
facet that is not configured; ids that are unknown, withdrawn or facet-less contribute
nothing; a repeated id is counted as often as it occurs.) -/
theorem c13_counts (F0 : List Facet) (h : List Op) (ds : List Int) (om : List Facet) (f : Facet) :
    AMap.get (counts (run F0 h) ds om) f =
      if omitted om f = true ∨ countOf (dedup F0) (table h) ds f = 0 then none
      else some (countOf (dedup F0) (table h) ds f) := by
  have hinv := run_finv F0 h
  have hnd : (run F0 h).facets.Nodup := by rw [hinv.1]; exact nodup_dedup F0
  rw [counts_get _ hnd, hits_eq hinv]
  by_cases ho : omitted om f = true
  · simp [ho]
  · simp [ho]

/-- the specification's count list (what the driver prints as the expected answer), read as a
dictionary, is the same function of the facet -/
theorem c13_counts_matches_spec (F0 : List Facet) (h : List Op) (ds : List Int) (om : List Facet)
    (f : Facet) :
    AMap.get (counts (run F0 h) ds om) f = AMap.get (Spec.counts (dedup F0) (table h) ds om) f := by
  rw [c13_counts, get_spec_counts _ (nodup_dedup F0)]

theorem c13_counts_omitted_absent (F0 : List Facet) (h : List Op) (ds : List Int) (om : List Facet)
    (f : Facet) (o : Facet) (ho : o ∈ om) (hp : isPrefix f o = true) :
    AMap.get (counts (run F0 h) ds om) f = none := by
  rw [c13_counts]
  have : omitted om f = true := by
    unfold omitted; rw [List.any_eq_true]; exact ⟨o, ho, hp⟩
  simp [this]

theorem c13_counts_unconfigured_absent (F0 : List Facet) (h : List Op) (ds : List Int)
    (om : List Facet) (f : Facet) (hf : f ∉ F0) :
    AMap.get (counts (run F0 h) ds om) f = none := by
  rw [c13_counts]
  have : countOf (dedup F0) (table h) ds f = 0 := by
    unfold countOf
    rw [List.length_eq_zero_iff, List.filter_eq_nil_iff]
    intro d _
    simp only [decide_eq_true_eq, mem_listed, mem_dedup]
    exact fun hc => hf hc.1
  simp [this]

/-! non-vacuity: facets `{a, a:b, c}` (with `a` given twice), paths matching nested / none,
a withdrawn document, counts over known, unknown, facet-less and repeated ids with an omit
list.  Segments: a = 1, b = 2, c = 3, x = 9. -/
example :
    let F0 : List Facet := [[1], [1, 2], [3], [1]]
    let h : List Op := [.index 1 (some [[1, 2, 9]]), .index 2 (some [[1], [3, 9]]), .index 3 (some [[9]]),
                        .index 4 none, .optimize, .index 5 (some [[1, 2], [1, 2]]), .unindex 5,
                        .index 6 (some [[3]])]
    Keyword.applyEq (run F0 h).ks [1] = [2, 1] ∧ Keyword.docids (run F0 h).ks = [1, 2, 6, 4] ∧
      counts (run F0 h) [1, 2, 3, 4, 77, 2, 6] [] = [([3], 3), ([1], 3), ([1, 2], 1)] ∧
      counts (run F0 h) [1, 2, 6] [[1, 2, 9]] = [([3], 2)] := by
  decide

end Hyp.Facet
