import HypatiaProofs.Lemmas.QueryParser
import HypatiaProofs.Lemmas.QueryTokenizer

/-!
# C14  Text query parser: documented grammar, clean failure only

Property statements only; lemmas are in `HypatiaProofs/Lemmas/Query{Tree,Grammar,Parser,Tokenizer}.lean`.

* Model: `HypatiaModel/QueryParser.lean` (`scan`, `classify`, `parseOr … parseAtom`,
  `parseTokens`, `parseQuery`, `checkQuery`), `HypatiaModel/ParseTree.lean` (`Tree`, `exec`).
* Specification: `HypatiaModel/Spec/QueryGrammar.lean` (`Derives`, `Query`, `QueryStr`, `WF`,
  `Executable`, `IsToken`).
* Everything is for an arbitrary lexicon `lx : Lex` (`parseTerms`, `isGlob`) and an arbitrary
  white-space predicate `sp`.

(1) Totality needs no theorem: `parseQuery : Lex → (Nat → Bool) → Str → Except PErr (Tree × List Str)`
is a total Lean function (structural / well-founded recursion on "remaining tokens decrease",
accepted by the termination checker; no `partial`, no fuel), and its only failure value is a
`PErr`, i.e. Python's `ParseError`.
-/
namespace Hyp.QP
open Spec

/-! ## check_query -/

/-- `check_query()` returns True exactly when parsing succeeds. -/
theorem c14_check_query (lx : Lex) (sp : Nat → Bool) (q : Str) :
    checkQuery lx sp q = true ↔ ∃ r, parseQuery lx sp q = .ok r := by
  unfold checkQuery
  cases parseQuery lx sp q <;> simp

/-! ## (3)+(4) the parser returns exactly what the documented grammar derives -/

/-- Soundness: a returned (tree, ignored) pair is derived by the grammar. -/
theorem c14_sound (lx : Lex) (sp : Nat → Bool) (q : Str) (t : Tree) (ig : List Str)
    (h : parseQuery lx sp q = .ok (t, ig)) : QueryStr lx sp q t ig :=
  parseTokens_sound h

/-- Completeness: whatever the grammar derives for the whole query is what the parser returns
(in particular it does not raise). -/
theorem c14_complete (lx : Lex) (sp : Nat → Bool) (q : Str) (t : Tree) (ig : List Str)
    (h : QueryStr lx sp q t ig) : parseQuery lx sp q = .ok (t, ig) :=
  parseTokens_complete h

/-- Both directions, on token lists (the parser proper) … -/
theorem c14_parse_iff_grammar_tokens (lx : Lex) (ts : List Tok) (t : Tree) (ig : List Str) :
    parseTokens lx ts = .ok (t, ig) ↔ Query lx ts t ig :=
  ⟨parseTokens_sound, parseTokens_complete⟩

/-- … and on query strings. -/
theorem c14_parse_iff_grammar (lx : Lex) (sp : Nat → Bool) (q : Str) (t : Tree) (ig : List Str) :
    parseQuery lx sp q = .ok (t, ig) ↔ QueryStr lx sp q t ig :=
  ⟨parseTokens_sound, parseTokens_complete⟩

/-- The grammar with its semantic actions is unambiguous: a query has at most one meaning. -/
theorem c14_grammar_unambiguous (lx : Lex) (ts : List Tok) (t t' : Tree) (ig ig' : List Str)
    (h : Query lx ts t ig) (h' : Query lx ts t' ig') : t = t' ∧ ig = ig' := by
  have e := (parseTokens_complete h).symm.trans (parseTokens_complete h')
  simpa using e

/-- The parser raises `ParseError` exactly on the strings the grammar gives no meaning to;
nothing else can come out (the result type has no third alternative). -/
theorem c14_reject_iff_no_derivation (lx : Lex) (sp : Nat → Bool) (q : Str) :
    (∃ e, parseQuery lx sp q = .error e) ↔ ¬ ∃ t ig, QueryStr lx sp q t ig := by
  constructor
  · rintro ⟨e, he⟩ ⟨t, ig, hq⟩
    rw [c14_complete lx sp q t ig hq] at he
    cases he
  · intro hn
    cases hp : parseQuery lx sp q with
    | error e => exact ⟨e, rfl⟩
    | ok r => exact absurd ⟨r.1, r.2, parseTokens_sound hp⟩ hn

/-- A grammatical query all of whose operands are stop words is rejected. -/
theorem c14_only_stop_words_rejected (lx : Lex) (ts : List Tok) (ig : List Str)
    (h : Derives lx .orE ts none ig) : parseTokens lx ts = .error .onlyCommon :=
  parseTokens_onlyCommon h

/-! ## (2) well-formedness; accepted ⇒ executable -/

/-- Every returned tree is well formed: `NotNode` only as a non-first child of an `AndNode`
(after all positive children, its operand not a `NotNode`), `AndNode`/`OrNode` with at least two
children, phrases with at least two words, globs/atoms as the lexicon classifies them. -/
theorem c14_well_formed (lx : Lex) (sp : Nat → Bool) (q : Str) (t : Tree) (ig : List Str)
    (h : parseQuery lx sp q = .ok (t, ig)) : WF lx t :=
  derives_wf (parseTokens_sound h) t rfl

/-- `Executable` is exactly "executeQuery does not reach `NotNode.executeQuery`", for every
index. -/
theorem c14_exec_ok_iff_executable {R : Type} (ix : Index R) (t : Tree) :
    (∃ r, exec ix t = .ok r) ↔ Executable t :=
  ⟨fun ⟨r, h⟩ => executable_of_exec_ok ix t r h, exec_ok_of_executable ix⟩

/-- A query `check_query()` accepts can be executed: its tree is executable on every index. -/
theorem c14_accepted_executable (lx : Lex) (sp : Nat → Bool) (q : Str)
    (h : checkQuery lx sp q = true) :
    ∃ t ig, parseQuery lx sp q = .ok (t, ig) ∧ Executable t ∧
      ∀ {R : Type} (ix : Index R), ∃ r, exec ix t = .ok r := by
  obtain ⟨⟨t, ig⟩, hp⟩ := (c14_check_query lx sp q).mp h
  have he := wf_executable (c14_well_formed lx sp q t ig hp)
  exact ⟨t, ig, hp, he, fun ix => exec_ok_of_executable ix he⟩

/-! ## ignored terms -/

/-- The terms reported as ignored are exactly the ATOM tokens all of whose words are stop
words, in input order. -/
theorem c14_ignored_are_the_stop_atoms (lx : Lex) (sp : Nat → Bool) (q : Str) (t : Tree)
    (ig : List Str) (h : parseQuery lx sp q = .ok (t, ig)) :
    ig = (atomsOf (tokenize sp q)).filter (fun s => lx.parseTerms s = []) :=
  derives_ignored (parseTokens_sound h)

/-! ## tokenizer -/

/-- Every token is a match of the tokenizer regex: a parenthesis, or an optional hyphen
followed by a quoted string without inner quotes or a non-empty run of characters that are not
parentheses, white space or quotes. -/
theorem c14_tokens_shape (sp : Nat → Bool) (q : Str) : ∀ t ∈ scan sp q, IsToken sp t :=
  scan_tokens sp q

/-- Nothing but white space and (unpaired) double quotes is dropped between tokens, and
nothing is reordered or invented. -/
theorem c14_scan_conserves (sp : Nat → Bool) (q : Str) :
    (scan sp q).flatten.filter (keptChar sp) = q.filter (keptChar sp) :=
  scan_conserves sp q

/-- Key words are recognised in any mixture of case, and nothing else is a key word. -/
theorem c14_keywords_case_insensitive (t : Str) :
    (classify t = .and ↔ t.map upperAscii = [65, 78, 68]) ∧
    (classify t = .or ↔ t.map upperAscii = [79, 82]) ∧
    (classify t = .not ↔ t.map upperAscii = [78, 79, 84]) ∧
    (t.map upperAscii ≠ [65, 78, 68] → t.map upperAscii ≠ [79, 82] → t.map upperAscii ≠ [78, 79, 84] →
      t ≠ [LP] → t ≠ [RP] → classify t = .atom t) :=
  ⟨classify_and_iff t, classify_or_iff t, classify_not_iff t, classify_atom t⟩

/-- The interior of a quoted string can contain key words: a quoted token is an ATOM. -/
theorem c14_quoted_is_atom (b : Str) :
    classify (QUOTE :: b) = .atom (QUOTE :: b) ∧
    classify (HYPHEN :: QUOTE :: b) = .atom (HYPHEN :: QUOTE :: b) :=
  classify_quoted b

/-! ## the hypotheses are satisfiable: a concrete query -/

private def exThe : Str := [116, 104, 101]
private def exFoo : Str := [102, 111, 111]
private def exBar : Str := [98, 97, 114]
/-- a lexicon with one stop word ("the"); every other token is one word; `*` makes a glob -/
private def exLex : Lex :=
  { parseTerms := fun s => if s = exThe then [] else [s], isGlob := fun w => w.contains 42 }

/-- `foo AND NOT bar the`  ↦  And[foo, Not bar], ignored = [the]  (derivation built by hand,
then transported to the parser by completeness) -/
example :
    parseTokens exLex [.atom exFoo, .and, .not, .atom exBar, .atom exThe] =
      .ok (.andN [.atom exFoo, .notN (.atom exBar)], [exThe]) := by
  apply parseTokens_complete
  have t0 := Derives.atoms (lx := exLex) [exFoo] (by simp) (by decide)
  have t1 := Derives.atoms (lx := exLex) [exBar, exThe] (by simp) (by decide)
  have a := Derives.andE (lx := exLex) [(.andNot, ⟨_, _, _⟩)] t0
    (by intro it hit; simp only [List.mem_singleton] at hit; subst hit; exact t1)
  have o := Derives.orE (lx := exLex) [] a (by simp)
  exact o

/-- `the` alone is grammatical but entirely dropped: rejected with "only common words" -/
example : parseTokens exLex [.atom exThe] = .error .onlyCommon := by
  apply parseTokens_onlyCommon (ig := [exThe])
  have t0 := Derives.atoms (lx := exLex) [exThe] (by simp) (by decide)
  have a := Derives.andE (lx := exLex) [] t0 (by simp)
  have o := Derives.orE (lx := exLex) [] a (by simp)
  exact o

end Hyp.QP
