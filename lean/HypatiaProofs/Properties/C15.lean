import HypatiaProofs.Lemmas.LexiconInv
import HypatiaProofs.Lemmas.LexiconGlob
import HypatiaProofs.Lemmas.LexiconPipeline

/-!
# C15  Lexicon: word ids are permanent and unique; lookups and globs are exact

Property statements only; lemmas are in `HypatiaProofs/Lemmas/Lexicon{Inv,Glob,Pipeline}.lean`.

* Model: `HypatiaModel/Lexicon.lean` – pipeline elements over parametric character tables,
  `_getWordIdCreate`/`_new_wid` with the skip loop, `sourceToWordIds`, `termToWordIds`,
  `parseTerms`, `isGlob`, `globToWordIds` (prefix split, regex translation, range scan).
* Specification: `HypatiaModel/Spec/LexiconSpec.lean` – `Call`, `run` (state after any interleaving
  of the four calls), `seen` (the words source text has produced), `GlobMatch`.
* Everything holds for every configuration `cfg` (any character tables, any pipeline built from
  the five shipped elements, any stop-word dictionaries) and every list of calls.

The code as repaired (`re.escape(prefix)`, `\Z`, `re.DOTALL`, commit 445650f) needs no `WordChars`
hypothesis: `c15_glob_exact` is for arbitrary words and patterns, including regex metacharacters
and newlines.
-/
namespace Hyp.Lex
open Hyp.QP (Str)
open Spec

/-! ## ids: positive, unique, permanent, never reused; the two maps are mutually inverse -/

/-- Every id handed out is positive (0 stays reserved for "unknown"). -/
theorem c15_ids_positive (cfg : Cfg) (calls : List Call) (w : Str) (i : Nat)
    (h : AMap.get (run cfg calls).wids w = some i) : 1 ≤ i :=
  (inv_pos (inv_run cfg calls) h).1

/-- word → id and id → word are mutually inverse after any interleaving of calls. -/
theorem c15_maps_inverse (cfg : Cfg) (calls : List Call) (w : Str) (i : Nat) :
    AMap.get (run cfg calls).wids w = some i ↔ getWord (run cfg calls) i = some w :=
  (inv_run cfg calls).inverse w i

/-- No id is shared by two words. -/
theorem c15_ids_not_shared (cfg : Cfg) (calls : List Call) (w w' : Str) (i : Nat)
    (h : AMap.get (run cfg calls).wids w = some i) (h' : AMap.get (run cfg calls).wids w' = some i) :
    w = w' := by
  have a := ((inv_run cfg calls).inverse w i).mp h
  have b := ((inv_run cfg calls).inverse w' i).mp h'
  rw [a] at b; cases b; rfl

/-- An id, once assigned, is never changed by anything that happens later. -/
theorem c15_ids_permanent (cfg : Cfg) (before later : List Call) (w : Str) (i : Nat)
    (h : AMap.get (run cfg before).wids w = some i) :
    AMap.get (run cfg (before ++ later)).wids w = some i := by
  rw [run_append]
  exact foldl_step_keeps cfg later (inv_run cfg before) h

/-- … and never reused: the id keeps naming the same word. -/
theorem c15_ids_never_reused (cfg : Cfg) (before later : List Call) (w : Str) (i : Nat)
    (h : AMap.get (run cfg before).wids w = some i) :
    getWord (run cfg (before ++ later)) i = some w :=
  (c15_maps_inverse cfg _ w i).mp (c15_ids_permanent cfg before later w i h)

/-- A word seen for the first time gets an id that was never in use before. -/
theorem c15_first_seen_gets_fresh_id (cfg : Cfg) (before : List Call) (text : List Str) (w : Str)
    (i : Nat) (hnew : AMap.get (run cfg before).wids w = none)
    (h : AMap.get (run cfg (before ++ [.source text])).wids w = some i) :
    ∀ w' j, AMap.get (run cfg before).wids w' = some j → j < i := by
  intro w' j hj
  rw [run_append] at h
  have := createAll_fresh (inv_run cfg before) _ hnew h
  have := (inv_pos (inv_run cfg before) hj).2
  omega

/-- The ids in use are exactly 1 … word_count. -/
theorem c15_ids_are_one_to_count (cfg : Cfg) (calls : List Call) (i : Nat) :
    (getWord (run cfg calls) i).isSome ↔ 1 ≤ i ∧ i ≤ wordCount (run cfg calls) :=
  (inv_run cfg calls).range i

/-- The known words are exactly the words the pipeline has produced from source text;
looking up terms, expanding globs and `parseTerms` add nothing. -/
theorem c15_known_iff_seen (cfg : Cfg) (calls : List Call) (w : Str) :
    getWid (run cfg calls) w ≠ 0 ↔ w ∈ seen cfg calls := by
  rw [← known_iff_seen]
  cases h : AMap.get (run cfg calls).wids w with
  | none => simp [getWid, h]
  | some i =>
    have := c15_ids_positive cfg calls w i h
    simp [getWid, h]; omega

/-- `word_count()` is the number of distinct words. -/
theorem c15_word_count (cfg : Cfg) (calls : List Call) :
    wordCount (run cfg calls) = (seen cfg calls).length := by
  have hi := inv_run cfg calls
  have hp : (AMap.keys (run cfg calls).wids).Perm (seen cfg calls) := by
    apply (List.perm_ext_iff_of_nodup hi.wfW (seen_nodup cfg calls)).mpr
    intro w
    rw [AMap.mem_keys_iff, known_iff_seen]
  have := hp.length_eq
  rw [AMap.length_keys, hi.lenW] at this
  exact this

/-- The skip loop of `_new_wid` always stops on an id that is free (its probe bound in the model
is never what stops it) … -/
theorem c15_new_wid_is_free (s : State) : getWord s (newWid s) = none := by
  have := skipTaken_free (AMap.keys s.words) (s.count + 1)
  exact (AMap.not_mem_keys_iff _ _).mp this

/-- … and in every reachable state it is simply `word_count + 1`. -/
theorem c15_new_wid_is_next (cfg : Cfg) (calls : List Call) :
    newWid (run cfg calls) = wordCount (run cfg calls) + 1 :=
  newWid_eq (inv_run cfg calls)

/-! ## the three read-only calls -/

/-- `termToWordIds`, `globToWordIds` and `parseTerms` leave the lexicon as it is (in the model
they are functions *of* the state; `step` returns the state unchanged). -/
theorem c15_reads_do_not_write (cfg : Cfg) (s : State) (t : List Str) (p : Str) :
    step cfg s (.term t) = s ∧ step cfg s (.glob p) = s ∧ step cfg s (.parse t) = s :=
  ⟨rfl, rfl, rfl⟩

/-- `sourceToWordIds` returns, word by word, the ids the words of the text have afterwards – the
same list `termToWordIds` returns for the same text from then on – and every one is positive. -/
theorem c15_source_returns_ids (cfg : Cfg) (calls : List Call) (text : List Str) :
    (sourceToWordIds cfg (run cfg calls) text).2 = termToWordIds cfg (run cfg (calls ++ [.source text])) text
    ∧ ∀ i ∈ (sourceToWordIds cfg (run cfg calls) text).2, 1 ≤ i := by
  have hi := inv_run cfg calls
  have hr := createAll_result hi (runPipeline cfg.tables cfg.pipeline text)
  have e : run cfg (calls ++ [.source text]) = (sourceToWordIds cfg (run cfg calls) text).1 := by
    rw [run_append]; rfl
  refine ⟨?_, ?_⟩
  · rw [e]; exact hr.1
  · intro i h
    have h' : i ∈ (createAll (run cfg calls) (runPipeline cfg.tables cfg.pipeline text)).2 := h
    rw [hr.1] at h'
    obtain ⟨w, hw, rfl⟩ := List.mem_map.mp h'
    have hk := hr.2 w hw
    cases hg : AMap.get (createAll (run cfg calls) (runPipeline cfg.tables cfg.pipeline text)).1.wids w with
    | none => rw [hg] at hk; cases hk
    | some j =>
      have := (inv_pos (inv_createAll hi _) hg).1
      simpa [getWid, hg] using this

/-- `termToWordIds` maps every word of the text, tokenised by the same pipeline as source text, to
its id, and an unknown word to 0. -/
theorem c15_term_lookup (cfg : Cfg) (calls : List Call) (text : List Str) :
    termToWordIds cfg (run cfg calls) text =
      (runPipeline cfg.tables cfg.pipeline text).map (fun w =>
        match AMap.get (run cfg calls).wids w with
        | some i => i
        | none => 0) := by
  unfold termToWordIds
  apply List.map_congr_left
  intro w _
  unfold getWid
  cases AMap.get (run cfg calls).wids w <;> rfl

/-- An unknown word is mapped to 0, a known word never is. -/
theorem c15_zero_iff_unknown (cfg : Cfg) (calls : List Call) (w : Str) :
    getWid (run cfg calls) w = 0 ↔ w ∉ seen cfg calls := by
  rw [← c15_known_iff_seen]; simp

/-! ## globs -/

/-- Glob expansion returns exactly the ids of the known words the pattern matches (`*` any run
of characters, `?` exactly one, everything else literally, anchored at both ends) – for every
pattern whose first character is not a glob character, whatever characters the words and the
pattern contain. -/
theorem c15_glob_exact (cfg : Cfg) (calls : List Call) (pattern : Str)
    (hstart : ∀ c, pattern.head? = some c → isGlobChar c = false) :
    ∃ ids, globToWordIds (run cfg calls) pattern = .ok ids ∧
      ∀ i, i ∈ ids ↔ ∃ w, w ∈ seen cfg calls ∧ getWid (run cfg calls) w = i ∧ GlobMatch pattern w := by
  obtain ⟨ids, h, hm⟩ := globToWordIds_spec (inv_run cfg calls) pattern hstart
  refine ⟨ids, h, ?_⟩
  intro i
  rw [hm]
  constructor
  · rintro ⟨w, hg, hw⟩
    exact ⟨w, (known_iff_seen cfg calls w).mp (by simp [hg]), getWid_of_get hg, hw⟩
  · rintro ⟨w, hs, hg, hw⟩
    have := (known_iff_seen cfg calls w).mpr hs
    cases hg' : AMap.get (run cfg calls).wids w with
    | none => rw [hg'] at this; cases this
    | some j =>
      rw [getWid_of_get hg'] at hg
      exact ⟨w, hg ▸ hg', hw⟩

/-- A pattern that starts with a glob character is rejected with `QueryError`. -/
theorem c15_glob_leading_glob_char_rejected (s : State) (pattern : Str) (c : Nat)
    (hc : pattern.head? = some c) (hg : isGlobChar c = true) :
    globToWordIds s pattern = .error .queryError :=
  globToWordIds_error s pattern c hc hg

/-- The specification channel of the driver (filter all known words with the decision procedure
of `GlobMatch`) has the same members. -/
theorem c15_glob_spec_channel (cfg : Cfg) (calls : List Call) (pattern : Str)
    (hstart : ∀ c, pattern.head? = some c → isGlobChar c = false) (ids : List Nat)
    (h : globToWordIds (run cfg calls) pattern = .ok ids) :
    ∀ i, i ∈ ids ↔ i ∈ globIds (run cfg calls) pattern :=
  globToWordIds_eq_spec (inv_run cfg calls) pattern hstart ids h

/-- `globMatchB` decides `GlobMatch`. -/
theorem c15_globMatch_decided (p s : Str) : globMatchB p s = true ↔ GlobMatch p s :=
  globMatchB_iff p s

/-- `isGlob` is "contains `*` or `?`". -/
theorem c15_isGlob (w : Str) : isGlob w = true ↔ ∃ c ∈ w, isGlobChar c = true := by
  simp only [isGlob, isGlobChar, Bool.or_eq_true, List.contains_eq_mem, decide_eq_true_eq, beq_iff_eq]
  constructor
  · rintro (h | h)
    · exact ⟨STAR, h, Or.inl rfl⟩
    · exact ⟨QM, h, Or.inr rfl⟩
  · rintro ⟨c, hc, e | e⟩
    · exact Or.inl (e ▸ hc)
    · exact Or.inr (e ▸ hc)

/-! ## the pipeline tokenises source text, query terms and glob terms consistently -/

/-- Source text and query terms go through the same function. -/
theorem c15_same_pipeline (cfg : Cfg) (s : State) (text : List Str) :
    termToWordIds cfg s text = (runPipeline cfg.tables cfg.pipeline text).map (getWid s) ∧
    sourceToWordIds cfg s text = createAll s (runPipeline cfg.tables cfg.pipeline text) :=
  ⟨rfl, rfl⟩

/-- On text without `*` and `?`, glob tokenisation (`parseTerms`) is the plain tokenisation –
for every pipeline, provided lower-casing does not create glob characters. -/
theorem c15_parseTerms_plain_text (cfg : Cfg) (hl : LowerKeepsPlain cfg.tables) (text : List Str)
    (h : ∀ s ∈ text, GlobFree s) :
    parseTerms cfg text = runPipeline cfg.tables cfg.pipeline text :=
  runPipelineGlob_eq cfg.tables hl cfg.pipeline text h

/-- Splitter: a non-empty run of word characters is one word … -/
theorem c15_splitter_word (t : Tables) (c : Nat) (r : Str) (hc : t.isWord c = true)
    (hr : ∀ d ∈ r, t.isWord d = true) : splitWords t (c :: r) = [c :: r] :=
  tokens_single _ _ c r hc hr

/-- … any other character separates words (and is dropped) … -/
theorem c15_splitter_separator (t : Tables) (a : Str) (c : Nat) (b : Str) (hc : t.isWord c = false) :
    splitWords t (a ++ c :: b) = splitWords t a ++ splitWords t b :=
  tokens_sep _ _ (fun _ h => h) a c b hc

/-- … and nothing but separators is lost: the words, concatenated, are the word characters of
the text in order. -/
theorem c15_splitter_conserves (t : Tables) (s : Str) :
    (splitWords t s).flatten = s.filter t.isWord :=
  tokens_conserve t.isWord s

/-- Glob tokens: a word character followed by word characters, `*` and `?` – so a glob term never
starts with a glob character (given `*`/`?` are not word characters) – cut out at a character
that is neither. -/
theorem c15_glob_token_shape (t : Tables) (s : Str) :
    ∀ w ∈ splitGlobs t s, ∃ c r, w = c :: r ∧ t.isWord c = true ∧
      ∀ d ∈ r, t.isWord d = true ∨ isGlobChar d = true := by
  intro w hw
  obtain ⟨c, r, e, hc, hr⟩ := tokens_shape _ _ s w hw
  exact ⟨c, r, e, hc, fun d hd => by simpa using hr d hd⟩

theorem c15_glob_token_separator (t : Tables) (a : Str) (c : Nat) (b : Str)
    (hc : t.isWord c = false) (hg : isGlobChar c = false) :
    splitGlobs t (a ++ c :: b) = splitGlobs t a ++ splitGlobs t b :=
  tokens_sep _ _ (fun _ h => by simp [h]) a c b (by simp [hc, hg])

/-- HTML splitter: lower-case, replace markup by a space, split into words. -/
theorem c15_html_process (t : Tables) (chunks : List Str) :
    process t .html chunks = chunks.flatMap (fun s => splitWords t (stripMarkup (lowerStr t s))) ∧
    processGlob t .html chunks = chunks.flatMap (fun s => splitGlobs t (stripMarkup (lowerStr t s))) :=
  ⟨rfl, rfl⟩

/-- A tag `<…>` (no angle brackets inside) is removed (replaced by one space). -/
theorem c15_html_tag_removed (body rest : Str) (hb : ∀ d ∈ body, d ≠ LT ∧ d ≠ GT) :
    stripMarkup (LT :: body ++ GT :: rest) = SPACE :: stripMarkup rest :=
  stripMarkup_tag body rest hb

/-- An entity `&name;` (non-empty ASCII-letter name) is removed. -/
theorem c15_html_entity_removed (d : Nat) (name rest : Str) (hd : isAsciiLetter d = true)
    (hn : ∀ e ∈ name, isAsciiLetter e = true) :
    stripMarkup (AMP :: d :: name ++ SEMI :: rest) = SPACE :: stripMarkup rest :=
  stripMarkup_entity d name rest hd hn

/-- Everything that is not markup is kept: a character that begins no tag/entity stays, and
text without `<` and `&` is unchanged. -/
theorem c15_html_text_kept (c : Nat) (s : Str) :
    (markupLen c s = none → stripMarkup (c :: s) = c :: stripMarkup s) ∧
    ((∀ d ∈ c :: s, d ≠ LT ∧ d ≠ AMP) → stripMarkup (c :: s) = c :: s) :=
  ⟨stripMarkup_plain c s, stripMarkup_id (c :: s)⟩

/-- Case normaliser and stop-word removers are what their names say. -/
theorem c15_case_and_stop (t : Tables) (d : List Str) (l : List Str) :
    process t .caseNorm l = l.map (lowerStr t) ∧
    (∀ w, w ∈ process t (.stop d) l ↔ w ∈ l ∧ w ∉ d) ∧
    (∀ w, w ∈ process t (.stopSingle d) l ↔ w ∈ l ∧ w ∉ d ∧ ¬ (∃ c, w = [c] ∧ c < 255)) := by
  refine ⟨rfl, ?_, ?_⟩
  · intro w; simp [process]
  · intro w
    simp only [process, List.mem_filter, Bool.not_eq_true', Bool.or_eq_false_iff,
      List.contains_eq_mem, decide_eq_false_iff_not]
    constructor
    · rintro ⟨h1, h2, h3⟩
      refine ⟨h1, h2, ?_⟩
      rintro ⟨c, rfl, hc⟩
      simp [isSingle, hc] at h3
    · rintro ⟨h1, h2, h3⟩
      refine ⟨h1, h2, ?_⟩
      cases w with
      | nil => rfl
      | cons c r =>
        cases r with
        | nil =>
          simp only [isSingle, decide_eq_false_iff_not]
          intro hc; exact h3 ⟨c, rfl, hc⟩
        | cons _ _ => rfl

/-! ## the hypotheses are satisfiable: a concrete lexicon -/

/-- ASCII letters/digits/underscore are word characters; upper-case ASCII is lower-cased -/
private def exTables : Tables :=
  { isWord := fun c => (48 ≤ c && c ≤ 57) || (65 ≤ c && c ≤ 90) || c == 95 || (97 ≤ c && c ≤ 122),
    lower := fun c => if 65 ≤ c ∧ c ≤ 90 then [c + 32] else [c] }
private def exCfg : Cfg :=
  { tables := exTables, pipeline := [.splitter, .caseNorm, .stop [[116, 104, 101]]] }
-- "The cat, the HAT"  then  "a(b cat"  (a lookup in between)
private def exCalls : List Call :=
  [.source [[84, 104, 101, 32, 99, 97, 116, 44, 32, 116, 104, 101, 32, 72, 65, 84]],
   .term [[99, 97, 116]], .glob [99, 42],
   .source [[97, 40, 98, 32, 99, 97, 116]]]

/-- `some ids` / `none` = QueryError (only because `Except` has no `DecidableEq`) -/
private def globOpt (s : State) (p : Str) : Option (List Nat) :=
  match globToWordIds s p with
  | .ok l => some l
  | .error _ => none

example : (run exCfg exCalls).count = 4 := by decide
example : termToWordIds exCfg (run exCfg exCalls) [[72, 97, 116, 32, 100, 111, 103, 32, 66]] = [2, 0, 4] := by
  decide
-- "?at" is rejected, "*at"-free pattern "?" as well; "c*" finds cat, "?" after a prefix: "ha?" finds hat
example : globOpt (run exCfg exCalls) [99, 42] = some [1] := by decide
example : globOpt (run exCfg exCalls) [104, 97, 63] = some [2] := by decide
example : globOpt (run exCfg exCalls) [63, 97, 116] = none := by decide
example : LowerKeepsPlain exTables := by
  intro c hc d hd
  simp only [exTables] at hd
  split at hd
  · simp at hd; subst hd; simp [isGlobChar, STAR, QM]; omega
  · simp at hd; subst hd; exact hc
-- a lexicon without splitter keeps regex metacharacters and newlines in its words:
-- words "a|bzzz", "ab\n", "a(" ;  pattern "a|b*z" matches only the first, "a?" none, "a(*" the third
private def rawCfg : Cfg := { tables := exTables, pipeline := [] }
private def rawCalls : List Call :=
  [.source [[97, 124, 98, 122, 122, 122], [97, 98, 10], [97, 40]]]
example : globOpt (run rawCfg rawCalls) [97, 124, 98, 42, 122] = some [1] := by decide
example : globOpt (run rawCfg rawCalls) [97, 63] = some [3] := by decide
example : globOpt (run rawCfg rawCalls) [97, 98, 63] = some [2] := by decide
example : globOpt (run rawCfg rawCalls) [97, 40, 42] = some [3] := by decide

end Hyp.Lex
