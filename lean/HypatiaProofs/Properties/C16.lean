import HypatiaProofs.Lemmas.Widcode

/-!
# C16  Word-id list encoding round-trips and substring search means sub-list

Property statements only; lemmas are in `HypatiaProofs/Lemmas/Widcode.lean`.
`Valid ws` is the range restriction of the statement: every id is `< 2^28`.
-/
namespace Hyp.Widcode

/-- Encoding any list of ids in [0, 2^28) and decoding it returns the same list. -/
theorem c16_round_trip (ws : List Nat) (h : Valid ws) : decode (encode ws) = ws := by
  simp [decode, decodeAux_encode ws h]

/-- The code of a list is the concatenation of its ids' codes. -/
theorem c16_concat (a b : List Nat) : encode (a ++ b) = encode a ++ encode b :=
  encode_append a b

/-- In each id's code exactly the first character has its high bit set (1–4 characters). -/
theorem c16_shape (w : Nat) (hw : w < 0x10000000) :
    ∃ h t, enc1 w = h :: t ∧ 0x80 ≤ h ∧ h < 0x100 ∧ (∀ b ∈ t, b < 0x80) ∧ t.length ≤ 3 := by
  obtain ⟨h, t, a, b, c, d, e, _⟩ := enc1_shape w hw
  exact ⟨h, t, a, b, c, d, e⟩

/-- Distinct lists have distinct codes. -/
theorem c16_injective (a b : List Nat) (ha : Valid a) (hb : Valid b)
    (h : encode a = encode b) : a = b := by
  rw [← c16_round_trip a ha, ← c16_round_trip b hb, h]

/-- An encoded phrase occurs inside an encoded document at a position that starts and ends
on id boundaries iff the phrase's id list occurs contiguously in the document's id list. -/
theorem c16_boundary_occurrence (p d : List Nat) (hp : Valid p) (hd : Valid d) :
    (∃ pre suf, Valid pre ∧ Valid suf ∧ encode d = encode pre ++ encode p ++ encode suf)
      ↔ p <:+: d := by
  constructor
  · rintro ⟨pre, suf, h1, h2, h⟩
    rw [← encode_append, ← encode_append] at h
    have hv : Valid (pre ++ p ++ suf) := valid_append.mpr ⟨valid_append.mpr ⟨h1, hp⟩, h2⟩
    exact ⟨pre, suf, (c16_injective _ _ hd hv h).symm⟩
  · rintro ⟨pre, suf, rfl⟩
    obtain ⟨h12, h3⟩ := valid_append.mp hd
    obtain ⟨h1, _⟩ := valid_append.mp h12
    exact ⟨pre, suf, h1, h3, by simp [encode_append]⟩

/-- Every raw substring hit of a non-empty phrase starts on an id boundary. -/
theorem c16_raw_hit_starts_on_boundary (p d : List Nat) (hp : Valid p) (hd : Valid d)
    (hne : p ≠ []) (x y : List Nat) (h : encode d = x ++ encode p ++ y) :
    ∃ d1 d2, d = d1 ++ d2 ∧ x = encode d1 := by
  have hal : Aligned (encode p ++ y) := by
    cases p with
    | nil => exact absurd rfl hne
    | cons w ws =>
      obtain ⟨hw, _⟩ := valid_cons hp
      obtain ⟨hb, t, he, hh, _⟩ := enc1_shape w hw
      rw [encode_cons, he]; simpa [Aligned] using hh
  obtain ⟨d1, d2, e, e1, _⟩ := split_aligned d hd x (encode p ++ y) (by simpa using h) hal
  exact ⟨d1, d2, e, e1⟩

/-- A raw hit that is followed by end-of-string or a high byte is a genuine contiguous
occurrence – so a raw hit can differ from sub-list containment only by ending inside the
code of a longer id. -/
theorem c16_aligned_hit_is_sublist (p d : List Nat) (hp : Valid p) (hd : Valid d)
    (hne : p ≠ []) (x y : List Nat) (h : encode d = x ++ encode p ++ y) (hy : Aligned y) :
    p <:+: d := by
  obtain ⟨d1, d2, e, e1, e2⟩ := split_aligned d hd (x ++ encode p) y h hy
  subst e
  obtain ⟨hd1, _⟩ := valid_append.mp hd
  have hal : Aligned (encode p) := aligned_encode p hp
  obtain ⟨d11, d12, e', e3, e4⟩ := split_aligned d1 hd1 x (encode p) e1.symm hal
  subst e'
  obtain ⟨_, hd12⟩ := valid_append.mp hd1
  have : p = d12 := c16_injective _ _ hp hd12 e4
  subst this
  exact ⟨d11, d2, rfl⟩

/-- The phrase scan of `search_phrase` (as repaired) decides contiguous containment. -/
theorem c16_phraseFind_iff_sublist (p d : List Nat) (hp : Valid p) (hd : Valid d) (hne : p ≠ []) :
    phraseFind (encode p) (encode d) = true ↔ p <:+: d := by
  rw [phraseFind_iff]
  constructor
  · rintro ⟨x, y, h, hy⟩
    exact c16_aligned_hit_is_sublist p d hp hd hne x y h hy
  · rintro ⟨pre, suf, rfl⟩
    obtain ⟨_, h3⟩ := valid_append.mp hd
    exact ⟨encode pre, encode suf, by simp [encode_append], aligned_encode suf h3⟩

/-- Raw `find` is implied by containment (never misses), but not conversely: the witness is
the defect D8 (`"w5 w1"` inside `w5 w130 …`), which is why the scan checks the boundary. -/
theorem c16_rawFind_of_sublist (p d : List Nat) (h : p <:+: d) :
    rawFind (encode p) (encode d) = true := by
  obtain ⟨pre, suf, rfl⟩ := h
  exact (rawFind_iff _ _).mpr ⟨encode pre, encode suf, by simp [encode_append]⟩

theorem c16_rawFind_false_hit :
    rawFind (encode [5, 1]) (encode [5, 130, 9, 1]) = true ∧ ¬ ([5, 1] <:+: [5, 130, 9, 1]) := by
  refine ⟨by decide, ?_⟩
  rintro ⟨pre, suf, h⟩
  have hl := congrArg List.length h
  simp at hl
  have : pre.length = 0 ∨ pre.length = 1 ∨ pre.length = 2 := by omega
  rcases this with h0 | h0 | h0
  · have : pre = [] := List.eq_nil_of_length_eq_zero h0
    subst this; simp at h
  · match pre, h0 with
    | [a], _ => simp at h
  · match pre, h0 with
    | [a, b], _ => simp at h

/-! non-vacuity: the hypotheses are met by concrete ids of every code length -/
example : Valid [0, 127, 128, 16383, 16384, 2097151, 2097152, 268435455] := by
  intro w hw; simp at hw; omega
example : decode (encode [0, 127, 128, 16383, 16384, 2097151, 2097152, 268435455])
    = [0, 127, 128, 16383, 16384, 2097151, 2097152, 268435455] := by decide
example : phraseFind (encode [5, 1]) (encode [5, 130, 9, 1]) = false := by decide
example : phraseFind (encode [5, 1]) (encode [5, 130, 5, 1, 2]) = true := by decide

end Hyp.Widcode
