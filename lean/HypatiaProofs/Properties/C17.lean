import HypatiaProofs.Lemmas.SetOps
import HypatiaProofs.Lemmas.SetOpsWF
import HypatiaProofs.Lemmas.Bisect

/-!
# C17  Weighted set algebra and N-best selection equal their definitions

Property statements only; lemmas are in `Lemmas/SetOps*.lean`, `Lemmas/NBest.lean`,
`Lemmas/SortAppend.lean`.  Scores and weights are real numbers (`Lemmas/ScalarReal.lean`);
`massUnion` / `massInter` are the models of `mass_weightedUnion` / `mass_weightedIntersection`
(`HypatiaModel/SetOps.lean`), `unionAt` / `interAt` the definition (`Spec/SetOpsSpec.lean`).
No hypothesis on the maps is needed (not even distinct keys: `get` reads the first entry), none
on the weights (the statement's "positive" is not used), none on the list.
NBest theorems hold for every score type with the laws of a linear order (`OrdLaws`).
-/
set_option linter.unusedSectionVars false
set_option linter.unnecessarySeqFocus false
namespace Hyp.C17
open Hyp Hyp.SetOps Hyp.SetSpec

/-- the sum of `weight · map[k]` over the maps of `L` that contain `k` -/
noncomputable def wsum (L : List (WMap ℝ × ℝ)) (k : Int) : ℝ :=
  (L.filterMap (fun p => (AMap.get p.1 k).map (fun v => p.2 * v))).sum

/-- The definition, in plain terms: `unionAt` is that sum where some map contains `k`;
`interAt` is that sum where the list is non-empty and every map contains `k`. -/
theorem c17_sum_is_sum (L : List (WMap ℝ × ℝ)) (k : Int) :
    (unionAt L k = if ∃ p ∈ L, k ∈ AMap.keys p.1 then some (wsum L k) else none) ∧
    (interAt L k = if L ≠ [] ∧ ∀ p ∈ L, k ∈ AMap.keys p.1 then some (wsum L k) else none) := by
  have hk : hasK L k = true ↔ ∃ p ∈ L, k ∈ AMap.keys p.1 := by
    simp [hasK, AMap.contains, AMap.mem_keys_iff]
  have ha : (L.all (fun p => AMap.contains p.1 k)) = true ↔ ∀ p ∈ L, k ∈ AMap.keys p.1 := by
    simp [AMap.contains, AMap.mem_keys_iff]
  have hu : unionAt L k = if ∃ p ∈ L, k ∈ AMap.keys p.1 then some (wsum L k) else none := by
    rw [unionAt_eq]
    by_cases h : hasK L k = true
    · rw [if_pos h, if_pos (hk.mp h)]; rfl
    · rw [if_neg h, if_neg (mt hk.mpr h)]
  refine ⟨hu, ?_⟩
  unfold interAt
  by_cases h : (L.all (fun p => AMap.contains p.1 k)) = true
  · rw [if_pos h, hu]
    cases L with
    | nil => simp
    | cons p R =>
      have h1 : ∃ q ∈ p :: R, k ∈ AMap.keys q.1 := ⟨p, by simp, (ha.mp h) p (by simp)⟩
      rw [if_pos h1, if_pos ⟨by simp, ha.mp h⟩]
  · rw [if_neg h, if_neg (fun hh => h (ha.mpr hh.2))]

/-- **Union, values.** For every list of (map, weight) pairs the result maps each docid to the
sum of weight·score over the maps containing it (and the call does not fail). -/
theorem c17_union_value (L : List (WMap ℝ × ℝ)) :
    ∃ r, massUnion L = .ok r ∧ ∀ k, AMap.get r k = unionAt L k := by
  obtain ⟨t, ht, hg⟩ := massUnionT_spec L
  exact ⟨t.val, by simp [massUnion, ht, Except.map], hg⟩

/-- **Union, key set**: exactly the docids occurring in some map. -/
theorem c17_union_keys (L : List (WMap ℝ × ℝ)) (r : WMap ℝ) (h : massUnion L = .ok r) (k : Int) :
    k ∈ AMap.keys r ↔ ∃ p ∈ L, k ∈ AMap.keys p.1 := by
  obtain ⟨r', hr, hg⟩ := c17_union_value L
  rw [h] at hr; injection hr with hr; subst hr
  rw [AMap.mem_keys_iff, hg k, (c17_sum_is_sum L k).1]
  by_cases hh : ∃ p ∈ L, k ∈ AMap.keys p.1
  · rw [if_pos hh]; exact ⟨fun _ => hh, fun _ => rfl⟩
  · rw [if_neg hh]; exact ⟨fun h => by simp at h, fun h => absurd h hh⟩

/-- **Intersection, values**, `None` operands dropped first. -/
theorem c17_inter_value (L : List (Option (WMap ℝ) × ℝ)) :
    ∃ r, massInter L = .ok r ∧ ∀ k, AMap.get r k = interAt (present L) k := by
  obtain ⟨t, ht, hg⟩ := massInterT_spec L
  exact ⟨t.val, by simp [massInter, ht, Except.map], hg⟩

/-- **Intersection, key set**: exactly the docids present in every (non-`None`) map; no
operand at all gives the empty result. -/
theorem c17_inter_keys (L : List (Option (WMap ℝ) × ℝ)) (r : WMap ℝ) (h : massInter L = .ok r) (k : Int) :
    k ∈ AMap.keys r ↔ present L ≠ [] ∧ ∀ p ∈ present L, k ∈ AMap.keys p.1 := by
  obtain ⟨r', hr, hg⟩ := c17_inter_value L
  rw [h] at hr; injection hr with hr; subst hr
  rw [AMap.mem_keys_iff, hg k, (c17_sum_is_sum (present L) k).2]
  by_cases hh : present L ≠ [] ∧ ∀ p ∈ present L, k ∈ AMap.keys p.1
  · rw [if_pos hh]; exact ⟨fun _ => hh, fun _ => rfl⟩
  · rw [if_neg hh]; exact ⟨fun h => by simp at h, fun h => absurd h hh⟩

/-- **The results are maps.**  When every operand has pairwise distinct keys (what a BTrees bucket guarantees)
so has the result – and every intermediate of the merge loop and of the intersection chain: the association
lists of the model are maps, `get` reads *the* entry of a key. -/
theorem c17_union_is_map (L : List (WMap ℝ × ℝ)) (hwf : ∀ p ∈ L, AMap.WF p.1) (r : WMap ℝ)
    (h : massUnion L = .ok r) : (AMap.keys r).Nodup := massUnion_wf L hwf r h

theorem c17_inter_is_map (L : List (Option (WMap ℝ) × ℝ)) (hwf : ∀ p ∈ L, ∀ m, p.1 = some m → AMap.WF m)
    (r : WMap ℝ) (h : massInter L = .ok r) : (AMap.keys r).Nodup := massInter_wf L hwf r h

/-- …so the result is determined as a *set of entries*: `(k, v)` is an entry exactly when the definition gives
`v` at `k` -/
theorem c17_union_entries (L : List (WMap ℝ × ℝ)) (hwf : ∀ p ∈ L, AMap.WF p.1) (r : WMap ℝ)
    (h : massUnion L = .ok r) (k : Int) (v : ℝ) : (k, v) ∈ r ↔ unionAt L k = some v := by
  obtain ⟨r', hr, hg⟩ := c17_union_value L
  rw [h] at hr; injection hr with hr; subst hr
  rw [← hg k]
  constructor
  · exact fun hm => AMap.get_of_mem (massUnion_wf L hwf r h) hm
  · exact fun hm => AMap.mem_of_get hm

/-- **Order independence of the union**: permuting the list does not change any value. -/
theorem c17_union_perm (L L' : List (WMap ℝ × ℝ)) (hp : L.Perm L') :
    ∃ r r', massUnion L = .ok r ∧ massUnion L' = .ok r' ∧ ∀ k, AMap.get r k = AMap.get r' k := by
  obtain ⟨r, hr, hg⟩ := c17_union_value L
  obtain ⟨r', hr', hg'⟩ := c17_union_value L'
  exact ⟨r, r', hr, hr', fun k => by rw [hg k, hg' k, unionAt_perm hp k]⟩

/-- **Order independence of the intersection.** -/
theorem c17_inter_perm (L L' : List (Option (WMap ℝ) × ℝ)) (hp : L.Perm L') :
    ∃ r r', massInter L = .ok r ∧ massInter L' = .ok r' ∧ ∀ k, AMap.get r k = AMap.get r' k := by
  obtain ⟨r, hr, hg⟩ := c17_inter_value L
  obtain ⟨r', hr', hg'⟩ := c17_inter_value L'
  have : (present L).Perm (present L') := hp.filterMap _
  exact ⟨r, r', hr, hr', fun k => by rw [hg k, hg' k, interAt_perm this k]⟩

/-- zero inputs: the empty result -/
theorem c17_union_nil : massUnion ([] : List (WMap ℝ × ℝ)) = .ok [] := rfl

theorem c17_inter_nil (L : List (Option (WMap ℝ) × ℝ)) (h : present L = []) : massInter L = .ok [] := by
  unfold massInter massInterT
  show Except.map Triv.val (if (present L).length < 2 then trivial (present L) else _) = _
  rw [h]; rfl

/-- one input: the single map scaled by its weight -/
theorem c17_union_single (m : WMap ℝ) (w : ℝ) :
    ∃ r, massUnion [(m, w)] = .ok r ∧ ∀ k, AMap.get r k = (AMap.get m k).map (fun v => w * v) := by
  obtain ⟨r, hr, hg⟩ := c17_union_value [(m, w)]
  refine ⟨r, hr, fun k => ?_⟩
  rw [hg k]
  cases h : AMap.get m k <;> simp [unionAt, contribs, sum1, h]

/-- … and with weight 1 it is the caller's own map, not a copy (`_trivial`'s short cut) -/
theorem c17_union_single_one (m : WMap ℝ) : massUnionT [(m, (1 : ℝ))] = .ok (.operand m) := by
  have : Scalar.beq (1 : ℝ) (Scalar.nat 1) = true := by simp
  unfold massUnionT
  show (if [(m, (1 : ℝ))].length < 2 then trivial [(m, 1)] else _) = _
  rw [if_pos (by simp)]
  show (if _ then _ else _) = _
  rw [if_pos this]

theorem c17_inter_single (m : WMap ℝ) (w : ℝ) :
    ∃ r, massInter [(some m, w)] = .ok r ∧ ∀ k, AMap.get r k = (AMap.get m k).map (fun v => w * v) := by
  obtain ⟨r, hr, hg⟩ := c17_inter_value [(some m, w)]
  refine ⟨r, hr, fun k => ?_⟩
  rw [hg k]
  cases h : AMap.get m k <;> simp [present, interAt, unionAt, contribs, sum1, AMap.contains, h]

/-- a `None` operand ("every document") is ignored, whatever its weight and position -/
theorem c17_inter_none_dropped (L₁ L₂ : List (Option (WMap ℝ) × ℝ)) (w : ℝ) :
    massInter (L₁ ++ (none, w) :: L₂) = massInter (L₁ ++ L₂) := by
  unfold massInter massInterT
  simp [List.filterMap_append]

/-- **Termination of the merge loop**: every iteration leaves a strictly shorter queue
(this is the measure Lean accepted for `mergeLoop`; two entries leave, at most one enters). -/
theorem c17_merge_queue_shrinks (q : Queue ℝ) (a b : (WMap ℝ × ℝ) × Nat)
    (rest : List ((WMap ℝ × ℝ) × Nat)) (e : (WMap ℝ × ℝ) × Nat) (h : q.l = a :: b :: rest) :
    (NBest.add ({ q with l := rest } : Queue ℝ) e).l.length < q.l.length := by
  have := NBest.length_add_le ({ q with l := rest } : Queue ℝ) e
  rw [h]; simp at this ⊢; omega

/-! ### NBest -/
section
open Hyp.NBest
variable {ι σ : Type} [LT σ] [DecidableLT σ] [LE σ] [DecidableLE σ]

/-- `NBest(N)` fails exactly for `N < 1`. -/
theorem c17_nbest_new (N : Int) :
    ((new N : Except NBest.Err (State ι σ)) = .error .valueError ↔ N < 1) ∧
    (∀ s : State ι σ, new N = .ok s → 1 ≤ N ∧ s.cap = N.toNat ∧ getBest s = []) := by
  unfold new
  by_cases h : N < 1
  · simp [h]
  · simp only [h, if_false]
    refine ⟨by simp [h], fun s hs => ?_⟩
    injection hs with hs; subst hs
    exact ⟨by omega, rfl, rfl⟩

/-- **Add-only sequences**: after feeding any list of pairs (split into `add`/`addmany` calls
in any way – `addMany` is the loop over single adds) the collector holds exactly the first `N`
entries of the stable descending sort of all pairs: the `N` best, best first, earlier first
among equal scores. -/
theorem c17_nbest_adds (o : OrdLaws σ) (N : Int) (s : State ι σ) (h : new N = .ok s)
    (ps : List (ι × σ)) : getBest (addMany s ps) = NBestSpec.best N.toNat ps := by
  obtain ⟨hi, hl, hc⟩ := inv_new N s h
  have := (getBest_addMany o s ps hi).1
  rw [this]
  have hc' : s.cap = N.toNat := by omega
  simp [getBest, hl, hc']

/-- **Any sequence of add / addmany / pop_smallest**: what is held evolves as the
specification says – an `addmany` re-selects the first `N` of the stable descending sort of
(held ++ new pairs), a `pop_smallest` removes the last (worst, latest among equals) entry. -/
theorem c17_nbest_sequence (o : OrdLaws σ) (N : Int) (s : State ι σ) (h : new N = .ok s)
    (ops : List (Op ι σ)) : getBest (run s ops) = NBestSpec.run N.toNat [] ops := by
  obtain ⟨hi, hl, hc⟩ := inv_new N s h
  rw [getBest_run o s ops hi]
  have hc' : s.cap = N.toNat := by omega
  simp [getBest, hl, hc']

/-- `pop_smallest` returns the last entry of `getbest` (IndexError on an empty collector). -/
theorem c17_nbest_pop (t : State ι σ) :
    (popSmallest t).map (·.1) =
      match (getBest t).getLast? with
      | some p => .ok p
      | none => .error .indexError := by
  unfold popSmallest getBest
  cases t.l <;> simp [Except.map]

/-- `len` is the number of entries of `getbest` and never exceeds the capacity. -/
theorem c17_nbest_len (o : OrdLaws σ) (N : Int) (s : State ι σ) (h : new N = .ok s)
    (ops : List (Op ι σ)) :
    len (run s ops) = (getBest (run s ops)).length ∧ len (run s ops) ≤ N.toNat := by
  obtain ⟨hi, hl, hc⟩ := inv_new N s h
  have hr := inv_run o s ops hi
  have hcap : (run s ops).cap = s.cap := cap_run s ops
  refine ⟨by simp [len, getBest], ?_⟩
  have := hr.len
  unfold len; omega

/-- **`bisect_left`.**  The model inserts by a linear scan (`insertAsc`: in front of the first entry that is not
`< score`); the code calls `bisect.bisect_left` – CPython's binary search, `bisectLeft`
(`HypatiaModel/Bisect.lean`).  After any sequence of operations on a new collector the list is ascending, the
binary search returns the number of held entries with a smaller score, and inserting at that index is exactly
what the model's scan does. -/
theorem c17_nbest_bisect (o : OrdLaws σ) (N : Int) (s : State ι σ) (h : new N = .ok s)
    (ops : List (Op ι σ)) (p : ι × σ) :
    insertAsc p (run s ops).l = insertBisect p (run s ops).l ∧
    bisectLeft ((run s ops).l.map (·.2)) p.2 0 (run s ops).l.length =
      (((run s ops).l.map (·.2)).filter (fun x => decide (x < p.2))).length := by
  obtain ⟨hi, _, _⟩ := inv_new N s h
  have hr := inv_run o s ops hi
  obtain ⟨h1, h2⟩ := insertAsc_eq_insertBisect o p (run s ops).l hr.asc
  exact ⟨h1, by rw [h2, scanPos_eq_count o p.2 _ (asc_scores hr.asc)]⟩

/-- the binary search itself, on any ascending list and any window containing the answer -/
theorem c17_bisect_left (o : OrdLaws σ) (x : σ) (a : List σ) (hasc : a.Pairwise (· ≤ ·)) :
    bisectLeft a x 0 a.length = (a.filter (fun s => decide (s < x))).length := by
  rw [bisectLeft_eq_scanPos o x a hasc a.length 0 a.length rfl (Nat.zero_le _) (scanPos_le x a) (Nat.le_refl _),
    scanPos_eq_count o x a hasc]
end

/-! ### the hypotheses are satisfiable, the statements are not vacuous -/

example : OrdLaws Int := intOrdLaws

/-- capacity 2, scores with ties: the earlier of the equal scores is kept and reported first -/
example : NBest.getBest (NBest.addMany ({ cap := 2 } : NBest.State Int Int) [(1, 5), (2, 7), (3, 5), (4, 7)])
    = [(2, 7), (4, 7)] := by decide
example : NBestSpec.best 2 ([(1, 5), (2, 7), (3, 5), (4, 7)] : List (Int × Int)) = [(2, 7), (4, 7)] := by decide
example : NBestSpec.best 3 ([(1, 5), (2, 7), (3, 5), (4, 7)] : List (Int × Int)) = [(2, 7), (4, 7), (1, 5)] := by
  decide

/-- binary search on `[1, 3, 3, 7]`: positions of 3 (in front of the equal entries), 4, 0 and 9 -/
example : NBest.bisectLeft [1, 3, 3, 7] (3 : Int) 0 4 = 1 ∧ NBest.bisectLeft [1, 3, 3, 7] (4 : Int) 0 4 = 3 ∧
    NBest.bisectLeft [1, 3, 3, 7] (0 : Int) 0 4 = 0 ∧ NBest.bisectLeft [1, 3, 3, 7] (9 : Int) 0 4 = 4 ∧
    NBest.insertBisect ((9 : Int), (3 : Int)) [(1, 1), (2, 3), (3, 3), (4, 7)] =
      [(1, 1), (9, 3), (2, 3), (3, 3), (4, 7)] := by
  refine ⟨?_, ?_, ?_, ?_, ?_⟩ <;> simp [NBest.bisectLeft, NBest.insertBisect]

/-- three maps, non-1 weights, a key in all, a key in one -/
example : ∃ r, massUnion [([(1, 2), (2, 1)], (3 : ℝ)), ([(1, 5)], 1), ([(1, 1), (3, 4)], 2)] = .ok r ∧
    AMap.get r 1 = some 13 ∧ AMap.get r 2 = some 3 ∧ AMap.get r 3 = some 8 ∧ AMap.get r 4 = none := by
  obtain ⟨r, hr, hg⟩ := c17_union_value [([(1, 2), (2, 1)], (3 : ℝ)), ([(1, 5)], 1), ([(1, 1), (3, 4)], 2)]
  refine ⟨r, hr, ?_, ?_, ?_, ?_⟩ <;> rw [hg] <;> simp [unionAt, contribs, sum1, AMap.get] <;> norm_num

example : ∃ r, massInter [(some [(1, 2), (2, 1)], (3 : ℝ)), (none, 7), (some [(1, 5)], 1), (some [(1, 1), (3, 4)], 2)]
      = .ok r ∧ AMap.get r 1 = some 13 ∧ AMap.get r 2 = none ∧ AMap.get r 3 = none := by
  obtain ⟨r, hr, hg⟩ := c17_inter_value
    [(some [(1, 2), (2, 1)], (3 : ℝ)), (none, 7), (some [(1, 5)], 1), (some [(1, 1), (3, 4)], 2)]
  refine ⟨r, hr, ?_, ?_, ?_⟩ <;> rw [hg] <;>
    simp [present, interAt, unionAt, contribs, sum1, AMap.get, AMap.contains] <;> norm_num

end Hyp.C17
