import HypatiaModel.Alias

/-!
# C18  Queries, sorts and enumeration never modify an index or their inputs   (partial)

In every model of this development a read is a function `State → Args → Result`, so "the state after
a read equals the state before" and "the same read twice gives the same answer" hold by
construction and say nothing about the Python objects – that is the correspondence run's job.
What is proved here is the provenance discipline: each in-place write that occurs on a read path
targets a freshly allocated container.  `Properties/C18Index.lean` puts the read paths on the
object-level heaps of persistent objects (the ones C19 and C09 use) and proves that every read
writes only to objects it allocates, with this table as what the reads return.
-/
namespace Hyp.Alias

/-- Okapi: the container rescaled by `TextIndex.apply` is never one the index stores -/
theorem c18_okapi_apply_target_fresh (n : Nat) : applyTargetOkapi n = .fresh := by
  unfold applyTargetOkapi massUnion
  match n with
  | 0 => simp [trivial]
  | 1 => simp [okapiSearchWid, trivial]
  | n + 2 => simp [List.replicate]

/-- cosine: fresh unless a single word is searched whose posting is an IFBTree *and* idf is exactly 1 -/
theorem c18_cosine_apply_target (n : Nat) (isDict idfIsOne : Bool) :
    applyTargetCosine n isDict idfIsOne = .stored ↔ n = 1 ∧ isDict = false ∧ idfIsOne = true := by
  unfold applyTargetCosine massUnion
  match n with
  | 0 => simp [trivial]
  | 1 => cases isDict <;> cases idfIsOne <;> simp [cosineSearchWid, trivial, weightedUnion, bucketCopy]
  | n + 2 => simp [List.replicate]

/-- `scan_forward` works on a copy whatever it is given (caller's set, or a set the index handed out) -/
theorem c18_scan_forward_target_fresh (p : Prov) : scanForwardTarget p = .fresh := rfl

/-- results that ARE stored containers (so callers – and hypatia itself – must not mutate them):
`docids()` with an empty forward index, `_negate` of an empty positive answer on such an index -/
theorem c18_docids_may_be_stored : docids false true = .stored := rfl
theorem c18_negate_may_be_stored : negate true (docids false true) .fresh = .stored := rfl

/-- every other shape of `docids()` / `_negate` is fresh -/
theorem c18_docids_fresh_otherwise (ni ix : Bool) (h : ¬ (ni = false ∧ ix = true)) : docids ni ix = .fresh := by
  cases ni <;> cases ix <;> simp_all [docids, treeSetCopy, setUnion]

/-- `Query.union` never allocates when one side is empty: it hands back the other operand -/
theorem c18_query_union_aliases (l r : Prov) : queryUnion false true l r = l ∧ queryUnion true false l r = r := by
  simp [queryUnion]

end Hyp.Alias
