import HypatiaModel.ConcurrencyFacetReads
import HypatiaProofs.Lemmas.ConcurrencyReads
import HypatiaProofs.Lemmas.FacetCounts

/-!
# C18 from the object level: the facet index's reads

The facet index inherits `not_indexed()`, `docids()` and `KeywordIndex.search` (the entries of
`c18_keyword_reads_write_fresh`); its own read is `counts(docids, omit_facets)`
(`HypatiaModel/ConcurrencyFacetReads.lean`).

* `c18_facet_counts_writes_nothing`: for every state, every include list and every docid list the
  call leaves the heap **identical** (not only the stored objects: it allocates no persistent object
  either), the write log unchanged – its stored-write set is empty – and the read log gains exactly
  the reverse entries of the docids.
* `c18_facet_reads_write_fresh`: the complete read list of the facet index satisfies `ROK`.
* `c18_facet_counts_value`: the dictionary the object-level read returns is, as a function of the
  facet, the one C13's model (`Facet.counts`, with its memo) computes on the same heap – hence
  (`c13_counts`) the specification's counts.
-/
set_option linter.unusedSectionVars false
namespace Hyp.CIdx
open Hyp Hyp.Alias

section
variable {K : Type} [DecidableEq K]

theorem foldl_rd_spec (f : Int → Loc K) : ∀ (l : List Int) (z : KTx K),
    (l.foldl (fun x a => x.rd (f a)) z).heap = z.heap ∧ (l.foldl (fun x a => x.rd (f a)) z).writes = z.writes ∧
    (l.foldl (fun x a => x.rd (f a)) z).me = z.me ∧ (l.foldl (fun x a => x.rd (f a)) z).next = z.next ∧
    (l.foldl (fun x a => x.rd (f a)) z).reads = (l.map f).reverse ++ z.reads := by
  intro l
  induction l with
  | nil => intro z; simp
  | cons a l ih =>
    intro z
    obtain ⟨h1, h2, h3, h4, h5⟩ := ih (z.rd (f a))
    simp only [List.foldl_cons, List.map_cons, List.reverse_cons, List.append_assoc]
    exact ⟨h1, h2, h3, h4, by rw [h5]; rfl⟩

/-- **`FacetIndex.counts` writes nothing**: heap, write log and allocator are as before; the read
log gained the reverse entries of the docids (in call order) -/
theorem c18_facet_counts_writes_nothing (x : KTx K) (incl : List K) (ds : List Int) :
    (x.facetCounts incl ds).1.heap = x.heap ∧ (x.facetCounts incl ds).1.writes = x.writes ∧
    (x.facetCounts incl ds).1.next = x.next ∧
    (x.facetCounts incl ds).1.reads = (ds.map (fun d => Loc.rev d)).reverse ++ x.reads := by
  obtain ⟨h1, h2, _, h4, h5⟩ := foldl_rd_spec (K := K) (fun d => Loc.rev d) ds x
  exact ⟨h1, h2, h4, h5⟩

/-- **Facet index**: every read – the inherited ones and `counts` – writes only to objects it
allocates (`counts`: to none at all). -/
theorem c18_facet_reads_write_fresh (x : KTx K) :
    ROK x x.notIndexed.1 ∧ ROK x x.docids.1 ∧ (∀ k, ROK x (x.searchOne k).1) ∧ (∀ ks, ROK x (x.searchOr ks).1) ∧
    (∀ incl ds, ROK x (x.facetCounts incl ds).1) :=
  ⟨rok_refl x, (rok_docids x).1, fun k => (rok_searchOne x k).1, fun ks => (rok_searchOr x ks).1,
   fun _ ds => rok_foldl_rd _ ds (rok_refl x)⟩

end

open Hyp.Facet in
theorem facetCountsLoop_ok (rev : AMap Int (List Facet)) (incl : List Facet) (hincl : incl.Nodup)
    (ds : List Int) : ∀ (c : AMap Facet Nat) (n : Facet → Nat),
    CountsOK c n → CountsOK (facetCountsLoop rev incl ds c) (fun f => n f + hits rev incl ds f) := by
  induction ds with
  | nil => intro c n h; simpa [facetCountsLoop, hits] using h
  | cons d ds ih =>
    intro c n h
    rw [facetCountsLoop]
    cases hr : AMap.get rev d with
    | none =>
      simp only []
      apply (ih c n h).congr
      intro f; rw [hits_cons]; simp [apprOf, hr]
    | some avail =>
      simp only []
      have happ : apprOf rev incl d = LSet.inter incl avail := by simp [apprOf, hr]
      have vnd : (LSet.inter incl avail).Nodup := LSet.nodup_inter hincl avail
      have hb : (LSet.inter incl avail).foldl bumpK c = (LSet.inter incl avail).foldl bump c := rfl
      rw [hb]
      apply (ih _ _ (foldl_bump_ok _ vnd c n h)).congr
      intro f
      rw [hits_cons, happ]
      by_cases hv : f ∈ LSet.inter incl avail <;> simp [hv] <;> omega

open Hyp.Facet in
/-- the object-level `counts` read returns C13's `counts` of the heap read as a facet-index state
(`F` = the configured facets, an `OOSet`: no duplicates), for every omit list, docid list and facet -/
theorem c18_facet_counts_value (F : List Facet) (hF : F.Nodup) (thr : Nat) (x : KTx Facet)
    (ds : List Int) (om : List Facet) (f : Facet) :
    AMap.get (x.facetCounts (LSet.diff F (effectiveOmits om)) ds).2 f =
      AMap.get (Facet.counts { facets := F, ks := x.heap.view thr } ds om) f := by
  rw [counts_get _ hF]
  have h0 : CountsOK ([] : AMap Facet Nat) (fun _ => 0) := by intro f; simp
  have := facetCountsLoop_ok x.heap.rev _ (LSet.nodup_diff hF (effectiveOmits om)) ds [] _ h0 f
  simp only [Nat.zero_add] at this
  exact this

/-- non-vacuity: a facet index with three documents; `counts` over known, unknown and repeated ids,
with and without an omit list; nothing is written, three reverse entries are read -/
example :
    let F : List Int := [0, 1, 2, 3]
    let x := KTx.start (KTx.facetRun F (KTx.start ({} : KHeap Int) 0)
      [.index 1 (some [0, 1]), .index 2 (some [0]), .index 3 (some [3]), .index 4 none]).heap 1
    (x.facetCounts F [1, 2, 2, 4, 77]).2 = [(0, 3), (1, 1)] ∧
    (x.facetCounts (LSet.diff F [0]) [1, 2, 3]).2 = [(3, 1), (1, 1)] ∧
    (x.facetCounts F [1, 2, 3]).1.writes = [] ∧ (x.facetCounts F [1, 2, 3]).1.reads = [.rev 3, .rev 2, .rev 1] ∧
    (x.facetCounts F [1, 2, 3]).1.heap.post = x.heap.post := by
  decide

end Hyp.CIdx
