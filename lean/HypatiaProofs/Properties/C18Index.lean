import HypatiaProofs.Lemmas.ConcurrencyReadsText
import HypatiaProofs.Properties.C18

/-!
# C18 from the object level: reads write only what they allocate

`HypatiaModel/ConcurrencyReads.lean` puts the read paths of the field, keyword and text index on
the heaps of persistent objects the C19 and C09 layers use: posting lookup, `multiunion` scans
(`applyEq`, ranges), `not_indexed()`, `docids()`, `_negate`, `scan_forward` with its working copy,
`KeywordIndex.search`, Okapi / cosine `_search_wids`, `_trivial` and the in-place rescaling of
`TextIndex.apply`.  A read logs what it reads, allocates containers with new identities, and its
in-place mutations are logged like an indexing operation's.

* `c18_field_reads_write_fresh`, `c18_keyword_reads_write_fresh`, `c18_text_reads_write_fresh`:
  for **every** state and every argument, the state after the read differs from the state before
  only in objects allocated during the call, and every entry the write log gained names such an
  object (`ROF` / `ROK` / `ROT`).  For the cosine back end this needs "the posting is a dict or the
  idf is not exactly 1" – the one case `c18_cosine_apply_target` singles out;
  `c18_cosine_idf_one_writes_stored` is the witness that without it a stored `IFBTree` is written.
* `c18_field_read_state_unchanged` / `c18_text_read_state_unchanged`: hence the index state –
  `FHeap.view`, the state C01/C06 talk about; every stored component and every posting of the text
  heap – is unchanged, and no stored object is registered with the transaction: a theorem about
  the heap C19's merges and C09's blocks are defined on, not a typing fact.
* the provenance table of `Alias.lean` is what these reads return: `c18_docids_prov`,
  `c18_scan_prov`, `c18_scan_forward_prov`, `c18_keyword_search_one_prov`, `c18_okapi_apply_prov`,
  `c18_cosine_apply_prov`.
-/
set_option linter.unusedSectionVars false
namespace Hyp.CIdx
open Hyp Hyp.Alias

section Field
variable {V : Type} [DecidableEq V]

/-- **Field index**: every read writes only to objects it allocates. -/
theorem c18_field_reads_write_fresh (x : FTx V) :
    (∀ v, ROF x (x.lookup v).1) ∧ (∀ p, ROF x (x.scan p).1) ∧ ROF x x.notIndexed.1 ∧ ROF x x.docids.1 ∧
    (∀ positive, ROF x (x.negate positive).1) ∧
    (∀ src order limit, ROF x (x.scanForward src order limit).1) :=
  ⟨rof_lookup x, fun p => (rof_scan x p).1, rof_refl x, (rof_docids (rof_refl x)).1, rof_negate x,
   fun src order limit => (rof_scanForward x src order limit).1⟩

/-- what that means: the index state (references resolved) is the same, and no stored object has
been registered with the transaction -/
theorem c18_field_read_state_unchanged {x y : FTx V} (h : ROF x y) (hw : Wf x.heap) (hown : OwnF x) :
    y.heap.view = x.heap.view ∧
    dirty y.writes .fwd = dirty x.writes .fwd ∧ dirty y.writes .rev = dirty x.writes .rev ∧
    dirty y.writes .ni = dirty x.writes .ni ∧ dirty y.writes .len = dirty x.writes .len ∧
    ∀ o, (AMap.get x.heap.post o).isSome →
      AMap.get y.heap.post o = AMap.get x.heap.post o ∧ dirty y.writes (.post o) = dirty x.writes (.post o) := by
  have hstored : ∀ o, (AMap.get x.heap.post o).isSome → ¬ FreshFrom x.me x.next o :=
    fun o ho hf => absurd (hown o ho hf.1) (Nat.not_lt.mpr hf.2)
  obtain ⟨add, e, ha⟩ := h.writes
  have hd : ∀ ob, (∀ o, ob = .post o → ¬ FreshFrom x.me x.next o) → dirty y.writes ob = dirty x.writes ob := by
    intro ob hob
    unfold dirty
    rw [e, List.any_append]
    have : add.any (fun l => decide (l.obj = ob)) = false := by
      rw [List.any_eq_false]
      intro l hl
      obtain ⟨o, e1, e2, _⟩ := ha l hl
      simp only [decide_eq_true_eq]
      intro e3
      exact hob o (e3 ▸ e1) e2
    rw [this]; rfl
  refine ⟨?_, hd _ (fun _ e => by cases e), hd _ (fun _ e => by cases e), hd _ (fun _ e => by cases e),
    hd _ (fun _ e => by cases e), fun o ho => ⟨h.post o (hstored o ho), hd _ (fun o' e => by cases e; exact hstored o ho)⟩⟩
  unfold FHeap.view
  rw [h.fwd, h.rev, h.ni, h.len]
  congr 1
  apply List.map_congr_left
  intro e he
  have hg : AMap.get x.heap.fwd e.1 = some e.2 := AMap.get_of_mem hw.wf_fwd (by cases e; exact he)
  rw [h.post e.2 (hstored e.2 (hw.refs e.1 e.2 hg))]

/-- `docids()` returns what the provenance table says: the stored not-indexed set exactly when
there are unindexed but no indexed documents -/
theorem c18_docids_prov (x : FTx V) (hown : OwnF x) :
    provF x.heap x.docids.2 = Alias.docids (decide (x.heap.ni = [])) (decide (x.heap.rev = [])) := by
  rcases (rof_docids (rof_refl x)).2 with ⟨e, h1, h2⟩ | ⟨o, e, hf, _, hn⟩
  · rw [e]; simp [provF, Alias.docids, h1, h2]
  · rw [e, provF_fresh hown hf]
    by_cases h1 : x.heap.ni = []
    · simp [Alias.docids, h1, treeSetCopy]
    · have h2 : x.heap.rev ≠ [] := fun e2 => hn ⟨h1, e2⟩
      simp [Alias.docids, h1, h2, setUnion]

/-- a `multiunion` scan (`applyEq`, `applyInRange`, …) hands back a set of its own -/
theorem c18_scan_prov (x : FTx V) (hown : OwnF x) (p : V → Bool) (ps : List Prov) :
    provF x.heap (.obj (x.scan p).2) = multiunion ps :=
  provF_fresh hown (rof_scan x p).2

/-- `scan_forward` removes from a copy, whatever it was given – also when it was given a set the
index stores (`not_indexed()`, `docids()` of an index without indexed documents) -/
theorem c18_scan_forward_prov (x : FTx V) (hown : OwnF x) (src : RRef) (order : List V) (limit : Nat) :
    provF x.heap (.obj (x.scanForward src order limit).2.2) = scanForwardTarget (provF x.heap src) :=
  provF_fresh hown (rof_scanForward x src order limit).2

end Field

section Kw
variable {K : Type} [DecidableEq K]

/-- **Keyword index**: every read writes only to objects it allocates. -/
theorem c18_keyword_reads_write_fresh (x : KTx K) :
    ROK x x.notIndexed.1 ∧ ROK x x.docids.1 ∧ (∀ k, ROK x (x.searchOne k).1) ∧ (∀ ks, ROK x (x.searchOr ks).1) :=
  ⟨rok_refl x, (rok_docids x).1, fun k => (rok_searchOne x k).1, fun ks => (rok_searchOr x ks).1⟩

/-- `search([word], 'and')` (`applyEq`, one-keyword `applyAll`): `IF.intersection(None, set)` is
`set` – the result **is** the stored posting whenever the keyword has documents -/
theorem c18_keyword_search_one_prov (x : KTx K) (k : K) (o : Oid) (h0 : AMap.get x.heap.fwd k = some o)
    (hres : (AMap.get x.heap.post o).isSome) (hne : (x.obj o).2 ≠ []) :
    (x.searchOne k).2 = o ∧ provK x.heap (.obj (x.searchOne k).2) = intersectionWithNone .stored := by
  have e : (x.searchOne k).2 = o := by
    unfold KTx.searchOne
    simp only
    have h0' : AMap.get (x.rd (.fwd k)).heap.fwd k = some o := h0
    rw [h0']
    simp only
    have hne' : (((x.rd (.fwd k)).rd (.whole o)).obj o).2 ≠ [] := hne
    rw [if_neg hne']
  rw [e]
  exact ⟨rfl, by simp [provK, hres, intersectionWithNone]⟩

end Kw

section Text
variable {W Wt : Type} [DecidableEq W] [DecidableEq Wt]

/-- **Text index**: Okapi's `_search_wids` and `TextIndex.apply` write only to the bucket they
allocate; so do the cosine back end's, provided the posting is a dict or the idf is not 1. -/
theorem c18_text_reads_write_fresh (x : TTx W Wt) (score : Int → Wt → Wt) (scale div : Wt → Wt) (wid : Nat) :
    ROT x (x.okapiSearchWid score wid).1 ∧ ROT x (x.applyOkapi score div wid).1 ∧
    ROT x (x.cosineSearchWid wid).1 ∧ ROT x x.notIndexed.1 ∧
    (∀ idfIsOne, (idfIsOne = false ∨ ∃ m, AMap.get x.heap.wordinfo wid = some (.dict m)) →
      ROT x (x.applyCosine idfIsOne scale div wid).1) :=
  ⟨(rot_okapiSearchWid (rot_refl x) score wid).1, (rot_applyOkapi x score div wid).1,
   (rot_cosineSearchWid (rot_refl x) wid).1, rot_refl x,
   fun idfIsOne hs => (rot_applyCosine x idfIsOne scale div wid hs).1⟩

/-- what that means: every stored component, every posting and every stored tree is as before,
and no stored object has been registered with the transaction -/
theorem c18_text_read_state_unchanged {x y : TTx W Wt} (h : ROT x y) (hown : OwnT x) :
    y.heap.wids = x.heap.wids ∧ y.heap.words = x.heap.words ∧ y.heap.lexCount = x.heap.lexCount ∧
    y.heap.wordinfo = x.heap.wordinfo ∧ y.heap.docwords = x.heap.docwords ∧
    y.heap.docweight = x.heap.docweight ∧ y.heap.wordCount = x.heap.wordCount ∧
    y.heap.indexedCount = x.heap.indexedCount ∧ y.heap.totalDocLen = x.heap.totalDocLen ∧
    y.heap.ni = x.heap.ni ∧
    (∀ o, (AMap.get x.heap.tree o).isSome → AMap.get y.heap.tree o = AMap.get x.heap.tree o) ∧
    (∀ ob, (∀ o, ob = .tree o → (AMap.get x.heap.tree o).isSome) → tdirty y.writes ob = tdirty x.writes ob) := by
  have hstored : ∀ o, (AMap.get x.heap.tree o).isSome → ¬ FreshFrom x.me x.next o :=
    fun o ho hf => absurd (hown o ho hf.1) (Nat.not_lt.mpr hf.2)
  have hr := h.rest
  refine ⟨?_, ?_, ?_, ?_, ?_, ?_, ?_, ?_, ?_, ?_, fun o ho => h.tree o (hstored o ho), ?_⟩
  · have h1 := congrArg THeap.wids hr; exact h1
  · have h1 := congrArg THeap.words hr; exact h1
  · have h1 := congrArg THeap.lexCount hr; exact h1
  · have h1 := congrArg THeap.wordinfo hr; exact h1
  · have h1 := congrArg THeap.docwords hr; exact h1
  · have h1 := congrArg THeap.docweight hr; exact h1
  · have h1 := congrArg THeap.wordCount hr; exact h1
  · have h1 := congrArg THeap.indexedCount hr; exact h1
  · have h1 := congrArg THeap.totalDocLen hr; exact h1
  · have h1 := congrArg THeap.ni hr; exact h1
  · intro ob hob
    obtain ⟨add, e, ha⟩ := h.log
    unfold TTx.writes tdirty
    rw [e, List.filter_append, List.map_append, List.any_append]
    have : ((add.filter (·.notify)).map (·.loc)).any (fun l => decide (l.obj = ob)) = false := by
      rw [List.any_eq_false]
      intro l hl
      obtain ⟨s, hs, rfl⟩ := List.mem_map.mp hl
      obtain ⟨_, o, e1, e2, _⟩ := ha s (List.mem_filter.mp hs).1
      simp only [decide_eq_true_eq]
      intro e3
      exact hstored o (hob o (e3 ▸ e1)) e2
    rw [this]; rfl

/-- Okapi: the container `TextIndex.apply` rescales is the table's `applyTargetOkapi` – fresh -/
theorem c18_okapi_apply_prov (x : TTx W Wt) (hown : OwnT x) (score : Int → Wt → Wt) (div : Wt → Wt) (wid : Nat) :
    provT x.heap (x.okapiSearchWid score wid).2 = Alias.okapiSearchWid.1 ∧
    provT x.heap (x.applyOkapi score div wid).2 = applyTargetOkapi 1 := by
  rw [c18_okapi_apply_target_fresh]
  exact ⟨provT_fresh hown (rot_okapiSearchWid (rot_refl x) score wid).2.1,
         provT_fresh hown (rot_applyOkapi x score div wid).2⟩

/-- cosine: `_search_wids` hands back the stored tree (or a copy of a dict), and the container
`TextIndex.apply` rescales is the table's `applyTargetCosine` – in all four cases, including the
one in which it is the stored tree -/
theorem c18_cosine_apply_prov (x : TTx W Wt) (hown : OwnT x) (idfIsOne : Bool) (scale div : Wt → Wt) (wid : Nat)
    (v : PVal Wt) (h0 : AMap.get x.heap.wordinfo wid = some v)
    (hres : ∀ o, v = .ref o → (AMap.get x.heap.tree o).isSome) :
    let isDict := match v with | .dict _ => true | .ref _ => false
    ∃ o t, (x.cosineSearchWid wid).2 = some o ∧ provT x.heap o = (Alias.cosineSearchWid isDict idfIsOne).1 ∧
      (x.applyCosine idfIsOne scale div wid).2 = some t ∧
      provT x.heap t = applyTargetCosine 1 isDict idfIsOne := by
  intro isDict
  obtain ⟨a, b⟩ := rot_cosineSearchWid (rot_refl x) wid
  rw [h0] at b
  cases v with
  | ref o =>
    have b' : (x.cosineSearchWid wid).2 = some o := b
    have hs : provT x.heap o = .stored := by simp [provT, hres o rfl]
    obtain ⟨a2, b2⟩ := rot_trivialOne a o idfIsOne scale
    refine ⟨o, (((x.cosineSearchWid wid).1).trivialOne o idfIsOne scale).2, b', ?_, ?_, ?_⟩
    · simp [hs, Alias.cosineSearchWid, isDict]
    · unfold TTx.applyCosine; simp only [b']
    · rcases b2 with ⟨e1, e2, _⟩ | ⟨e1, e2, _⟩
      · rw [e2, hs, e1]
        simp [applyTargetCosine, massUnion, Alias.cosineSearchWid, Alias.trivial, isDict]
      · rw [provT_fresh hown e2, e1]
        simp [applyTargetCosine, massUnion, Alias.cosineSearchWid, Alias.trivial, weightedUnion, isDict]
  | dict m =>
    obtain ⟨o, eo, fo, _⟩ := b
    have hf : provT x.heap o = .fresh := provT_fresh hown fo
    obtain ⟨a2, b2⟩ := rot_trivialOne a o idfIsOne scale
    refine ⟨o, (((x.cosineSearchWid wid).1).trivialOne o idfIsOne scale).2, eo, ?_, ?_, ?_⟩
    · simp [hf, Alias.cosineSearchWid, bucketCopy, isDict]
    · unfold TTx.applyCosine; simp only [eo]
    · rcases b2 with ⟨e1, e2, _⟩ | ⟨e1, e2, _⟩
      · rw [e2, hf, e1]
        simp [applyTargetCosine, massUnion, Alias.cosineSearchWid, Alias.trivial, bucketCopy, isDict]
      · rw [provT_fresh hown e2, e1]
        simp [applyTargetCosine, massUnion, Alias.cosineSearchWid, Alias.trivial, weightedUnion, isDict]

open TextFreq in
/-- the excluded case is a real one at this level: with an `IFBTree` posting and idf = 1 the
rescaling writes the **stored** tree (object `(0, 0)` of the snapshot) and changes its weights -/
theorem c18_cosine_idf_one_writes_stored :
    let c := cosineCfg 2
    let x := TTx.start (TTx.run c (TTx.start ({} : THeap Nat SWt) 0)
      [.index 1 (some [7]), .index 2 (some [7]), .index 3 (some [7])]).heap 1
    let y := (x.applyCosine true id (fun w => (w.1 + 100, w.2)) 1).1
    AMap.get x.heap.wordinfo 1 = some (.ref (0, 0)) ∧ tdirty y.writes (.tree (0, 0)) = true ∧
    AMap.get y.heap.tree (0, 0) ≠ AMap.get x.heap.tree (0, 0) ∧
    (let z := (x.applyCosine false id (fun w => (w.1 + 100, w.2)) 1).1
     tdirty z.writes (.tree (0, 0)) = false ∧ AMap.get z.heap.tree (0, 0) = AMap.get x.heap.tree (0, 0)) := by
  decide

/-! non-vacuity: concrete reads on a field index with two values and an unindexed document -/
example :
    let x := FTx.start ((FTx.start ({} : FHeap Int) 0).run
      [.index 1 (some 7), .index 2 (some 7), .index 3 (some 9), .index 4 none]).heap 1
    (x.scan (· = 7)).2 = (1, 0) ∧ (x.scan (· = 7)).1.members (1, 0) = [2, 1] ∧
    x.docids.2 = .obj (1, 1) ∧
    (x.scanForward .ni [7, 9] 0).2.1 = [] ∧ (x.scanForward (.obj (0, 0)) [7, 9] 1).2.1 = [2] ∧
    (x.scanForward (.obj (0, 0)) [7, 9] 1).1.heap.posting 7 = x.heap.posting 7 := by
  decide

end Text

end Hyp.CIdx
