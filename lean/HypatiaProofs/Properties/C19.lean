import HypatiaProofs.Lemmas.Concurrency

/-!
# C19  Concurrent transactions on different documents conflict or both take effect   (partial)

Lean carries the optimistic-commit abstraction: two transactions run on the same snapshot; the second
commit merges every doubly-written object three-way (BTrees buckets per key, `Length` additively) or
fails.  Proved: *whenever the merge succeeds* and the second transaction read no position the first
one wrote, the merged state is exactly the state of running the second transaction after the first
(serial execution) – heap and counters.  A failed merge is ConflictError, which the property
admits.  Which objects each hypatia operation reads and writes, and that for hypatia's own operations a
merge either fails or yields the serial state, is `Properties/C19Index.lean` (field and keyword index);
MVCC and the real `_p_resolveConflict` code are outside Lean (checked on a real FileStorage by the
runtime half).
-/
namespace Hyp.Concurrency

/-- a transaction whose commit failed leaves no trace; the others appear in commit order -/
theorem c19_conflict_no_trace (l : CLog) : l.visible false false = l.base := by
  have : l.order.filter (okOf false false) = [] := by
    apply List.filter_eq_nil_iff.mpr
    intro w _; cases w <;> simp [okOf]
  simp [CLog.visible, this]

/-- both committed: the observer sees base, then the first committer's operations, then the second's -/
theorem c19_both_visible_serial (l : CLog) (w1 w2 : Who) (h : l.order = [w1, w2]) :
    l.visible true true = l.base ++ l.ops w1 ++ l.ops w2 := by
  have : l.order.filter (okOf true true) = [w1, w2] := by
    rw [h]; cases w1 <;> cases w2 <;> simp [okOf]
  simp [CLog.visible, this]

/-- the three-way merge of one key: unchanged on one side → the other side's value; changed on both → conflict -/
theorem c19_mergeKey_cases (old com new : Option Int) :
    (com = old → mergeKey old com new = some new) ∧
    (com ≠ old → new = old → mergeKey old com new = some com) ∧
    (com ≠ old → new ≠ old → mergeKey old com new = none) := by
  refine ⟨?_, ?_, ?_⟩ <;> intros <;> simp_all [mergeKey]

/-- **Serializability of a successful merge.**  `A` committed first, `B` second, both from snapshot
`(H, C)`.  If (frame) `B`'s writes and deltas are determined by the positions it reads, (rw) `A` changed
no position `B` reads, (eff) `B` leaves no position unchanged that `A` changed (a state-based merge cannot
see such a write), and the merge of every position succeeds, then the merged heap and counters are
those of running `B` after `A`. -/
theorem c19_merge_is_serial (A B : Txn) (H : Heap) (C : Counters)
    (frame : ∀ h1 h2 : Heap, (∀ p, B.reads p = true → h1 p = h2 p) →
      B.writes h1 = B.writes h2 ∧ B.deltas h1 = B.deltas h2)
    (rw : ∀ p, B.reads p = true → (A.run H C).1 p = H p)
    (eff : ∀ p v, lastWrite (B.writes H) p = some v → v ≠ H p ∨ (A.run H C).1 p = H p)
    (nc : ∀ p, mergeAt H (A.run H C).1 (B.run H C).1 p ≠ none) :
    (∀ p, mergeAt H (A.run H C).1 (B.run H C).1 p = some ((B.run (A.run H C).1 (A.run H C).2).1 p)) ∧
    mergeCounters C (A.run H C).2 (B.run H C).2 = (B.run (A.run H C).1 (A.run H C).2).2 := by
  obtain ⟨fw, fd⟩ := frame (A.run H C).1 H rw
  simp only [Txn.run] at fw fd
  constructor
  · intro p
    have hnc := nc p
    simp only [Txn.run, mergeAt] at hnc ⊢
    rw [fw]
    rw [applyWrites_eq (B.writes H) H p, applyWrites_eq (B.writes H) _ p] at *
    have he := eff p
    simp only [Txn.run] at he
    unfold mergeKey at hnc ⊢
    by_cases h1 : applyWrites H (A.writes H) p = H p
    · simp only [h1, if_true]
    · simp only [h1, if_false] at hnc ⊢
      cases hl : lastWrite (B.writes H) p with
      | none => simp [hl]
      | some v =>
        simp only [hl] at hnc ⊢
        rcases he v hl with h2 | h2
        · simp [h2] at hnc
        · exact absurd h2 h1
  · funext i
    simp only [Txn.run, mergeCounters, mergeCounter]
    rw [fd]
    simp only [applyDeltas_eq]
    omega

/-- `Length` merges are exact for any pair of deltas – counters never cause ConflictError and never
lose an update -/
theorem c19_length_merge (c dA dB : Int) : mergeCounter c (c + dA) (c + dB) = c + dA + dB := by
  unfold mergeCounter; omega

/-- non-vacuity / the dangerous shape: `B` empties a posting and deletes its key while `A` inserts into
the same posting object – both wrote position (posting, member-key…): modelled at key level the two
transactions write *different* keys of the posting object (A: key 2, B: key 1) and B additionally
deletes the forward-index key; the merge of the keyed heap succeeds, but `B` *read* the posting's
membership, which `A` changed – hypothesis (rw) fails, and indeed merged ≠ serial.  Real BTrees refuse
this merge (a set whose new state is empty is a conflict), which is why the property holds there. -/
theorem c19_write_skew_needs_rw :
    let H : Heap := fun p => if p = (0, 1) then some 1 else if p = (1, 7) then some 0 else none
    -- object 0 = posting set of keyword 7 (members as keys), object 1 = forward index (keyword ↦ posting)
    let A : Txn := { reads := fun _ => false, writes := fun _ => [((0, 2), some 1)], deltas := fun _ => [] }
    let B : Txn := { reads := fun p => p.1 == 0,
                     writes := fun h => [((0, 1), none)] ++
                       (if h (0, 2) = none then [((1, 7), none)] else []), deltas := fun _ => [] }
    let C : Counters := fun _ => 0
    (∀ p ∈ [((0 : Nat), (1 : Int)), (0, 2), (1, 7)], mergeAt H (A.run H C).1 (B.run H C).1 p ≠ none) ∧
    mergeAt H (A.run H C).1 (B.run H C).1 (1, 7) = some none ∧
    (B.run (A.run H C).1 (A.run H C).2).1 (1, 7) = some 0 := by
  decide

end Hyp.Concurrency
