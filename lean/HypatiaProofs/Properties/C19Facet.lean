import HypatiaProofs.Lemmas.ConcurrencyFacetInv
import HypatiaProofs.Lemmas.ConcurrencyKeywordMerge2
import HypatiaProofs.Lemmas.KeywordQuery
import HypatiaProofs.Lemmas.KeywordObs
import HypatiaProofs.Lemmas.FacetObs

/-!
# C19, facet index: conflict or serial at object level

`FacetIndex` inherits the keyword index's containers (forward `OOBTree` facet ↦ posting object,
reverse `IOBTree` docid ↦ `OOSet` of facets, `_not_indexed`, `_num_docs`) and `unindex_doc`; its own
`index_doc` (`KTx.facetIndexDoc`, `HypatiaModel/ConcurrencyIndex.lean`) takes the document out of
`_not_indexed`, unindexes a known docid completely, then – for every prefix expansion of every path
that is a configured facet – inserts the docid into the facet's posting (a new `IF.Set` for a new
facet; **never** replaced by a `TreeSet`, unlike `KeywordIndex._insert_forward`) and the facet into
the document's reverse set, and finally counts the document once.

Proved here, for **every** configured facet list, **every** base heap satisfying the object-level
form of the C13 refinement invariant (`KOInv H t`: the C02 / C13 invariant `Keyword.Inv` on the heap
with references resolved, for the table `t` docid ↦ listed facets; references resolve and are not
shared) and **every** pair of operation lists (`index_doc` = `reindex_doc` with or without a value,
`unindex_doc`) on disjoint docids:

* `c19_facet_conflict_or_serial`: the second commit reports a conflict, or the merged heap satisfies
  the invariant for the table of the serial execution "first transaction's calls, then the second's";
* `c19_facet_merged_observes_serial`: hence every index entry point (`Eq`, `NotEq`, `Any`, `NotAny`,
  `All`, `NotAll`), `docids` / `indexed` / `not_indexed`, the three counts, the `_num_docs` counter and
  every document's reverse set coincide with the serially built index;
* with facets as segment lists and paths as the calls supply them (`prefixes` of C13):
  `c19_facet_paths_conflict_or_serial` (the stored index satisfies C13's `FInv` for the serial facet
  table) and `c19_facet_counts_serial` (`counts(docids, omit_facets)` of the stored index = of the
  serially built one = C13's specification on the serial table, for every docid list, omit list and
  facet).

Hypotheses, all of them in the statements: the object-level invariant of the base, distinct
transaction identities that own no object of the base (`hab`, `hoa`, `hob` – how a ZODB connection
allocates oids), disjoint docids (`hdis`), and for the counts `F.Nodup` (`self.facets` is an `OOSet`).
No hypothesis on `tree_threshold` or on the D20 repair: the facet `index_doc` has no replacement step.
The merge rules are those of `commitSecondK` (shared with the keyword index).
-/
set_option linter.unusedSectionVars false
namespace Hyp.CIdx
open Hyp Hyp.Keyword Hyp.Keyword.Spec

variable {K : Type} [DecidableEq K]

/-- **One facet transaction** (also: the first committer, and serial execution) refines the table
docid ↦ hits, from any snapshot that satisfies the object-level invariant. -/
theorem c19_facet_txn_refines (F : List K) (H : KHeap K) (t : Table K) (hI : KOInv H t) (me : Nat)
    (hown : ∀ o, (AMap.get H.post o).isSome → o.1 ≠ me) (ops : List (TOp (List K))) :
    KOInv (KTx.facetRun F (KTx.start H me) ops).heap (tableAfterFacet F t ops) :=
  (facetRun_spec hI F me hown ops).1

/-- the driver's base states of the facet index (built by transaction `0` from the empty index)
satisfy the hypotheses of the theorems below -/
theorem c19_facet_reachable_base (F : List K) (ops0 : List (TOp (List K))) :
    let H := (KTx.facetRun F (KTx.start ({} : KHeap K) 0) ops0).heap
    KOInv H (tableAfterFacet F [] ops0) ∧ ∀ o, (AMap.get H.post o).isSome → o.1 = 0 := by
  have hinit : KOInv ({} : KHeap K) ([] : Table K) :=
    ⟨kinv_of_sim (ksim_pview _) (Keyword.inv_init (K := K)) AMap.WF_nil,
     ⟨fun _ _ h => by simp at h, fun _ _ _ h => by simp at h, AMap.WF_nil⟩⟩
  refine ⟨c19_facet_txn_refines F _ _ hinit 0 (fun _ h => by simp at h) ops0, ?_⟩
  intro o ho
  have := (facetRun_spec hinit F 0 (fun _ h => by simp at h) ops0).2.f.fresh_owner o ho
  rw [facetRun_me] at this
  rcases this with h | h
  · simp at h
  · exact h

/-- **Conflict or serial – facet index.**  `a` and `b` start from the committed state `H`
(object-level C13 invariant for the table `t`), run `opsA` / `opsB` on disjoint docids; `a` commits,
then `b`.  If the commit does not raise ConflictError, the stored heap satisfies the refinement
invariant for the table of the serial execution `opsA ++ opsB`, references resolve and no posting
object is shared. -/
theorem c19_facet_conflict_or_serial (F : List K)
    (H : KHeap K) (t : Table K) (hI : KOInv H t) (ia ib : Nat) (hab : ia ≠ ib)
    (hoa : ∀ o, (AMap.get H.post o).isSome → o.1 ≠ ia) (hob : ∀ o, (AMap.get H.post o).isSome → o.1 ≠ ib)
    (opsA opsB : List (TOp (List K))) (hdis : ∀ d, d ∈ docsOf opsA → d ∉ docsOf opsB) (M : KHeap K)
    (hM : commitSecondK H (KTx.facetRun F (KTx.start H ia) opsA) (KTx.facetRun F (KTx.start H ib) opsB) = some M) :
    KOInv M (tableAfterFacet F t (opsA ++ opsB)) := by
  obtain ⟨iA, gA⟩ := facetRun_spec hI F ia hoa opsA
  obtain ⟨iB, gB⟩ := facetRun_spec hI F ib hob opsB
  have ctx : KCtx H t (KTx.facetRun F (KTx.start H ia) opsA) (KTx.facetRun F (KTx.start H ib) opsB)
      (tableAfterFacet F t opsA) (tableAfterFacet F t opsB) (docsOf opsA) (docsOf opsB) :=
    ⟨hI, iA, iB, gA, gB, hdis, by rw [facetRun_me, facetRun_me]; exact hab⟩
  rw [tableAfterFacet_append]
  apply kmerged_inv ctx hM
  intro d
  by_cases hd : d ∈ docsOf opsB
  · simp only [hd, if_true]
    exact get_tableAfterFacet_congr F opsB _ _ d (get_tableAfterFacet_out F opsA t d (fun e => hdis d e hd))
  · simp only [hd, if_false]
    exact get_tableAfterFacet_out F opsB _ d hd

/-- the heap of the serial execution of two facet transactions: `b`'s calls run in a new
transaction on `a`'s committed heap -/
def serialHeapFacet (F : List K) (H : KHeap K) (ia ib : Nat) (opsA opsB : List (TOp (List K))) : KHeap K :=
  (KTx.facetRun F (KTx.start (KTx.facetRun F (KTx.start H ia) opsA).heap ib) opsB).heap

theorem c19_facet_serial_refines (F : List K)
    (H : KHeap K) (t : Table K) (hI : KOInv H t) (ia ib : Nat) (hab : ia ≠ ib)
    (hoa : ∀ o, (AMap.get H.post o).isSome → o.1 ≠ ia) (hob : ∀ o, (AMap.get H.post o).isSome → o.1 ≠ ib)
    (opsA opsB : List (TOp (List K))) :
    KOInv (serialHeapFacet F H ia ib opsA opsB) (tableAfterFacet F t (opsA ++ opsB)) := by
  obtain ⟨iA, gA⟩ := facetRun_spec hI F ia hoa opsA
  rw [tableAfterFacet_append]
  apply c19_facet_txn_refines F _ _ iA ib
  intro o ho
  rcases gA.f.fresh_owner o ho with h | h
  · exact hob o h
  · rw [facetRun_me] at h; exact fun e => hab (h.symm.trans e)

/-- merged = serial for the facet index, in the vocabulary of C13 and C06: every index entry point
(`Eq`, `NotEq`, `Any`, `NotAny`, `All`, `NotAll`) returns the same documents on the stored index and
on the serially built one, every enumeration / statistic coincides (`Keyword.ObsEq`: `indexed`,
`not_indexed`, `docids`, their counts, `_num_docs`, `unique_values`, `word_count`,
`document_repr`), and every document has the same reverse set – what `counts()` reads. -/
theorem c19_facet_merged_observes_serial (F : List K) (thr : Nat)
    (H : KHeap K) (t : Table K) (hI : KOInv H t) (ia ib : Nat) (hab : ia ≠ ib)
    (hoa : ∀ o, (AMap.get H.post o).isSome → o.1 ≠ ia) (hob : ∀ o, (AMap.get H.post o).isSome → o.1 ≠ ib)
    (opsA opsB : List (TOp (List K))) (hdis : ∀ d, d ∈ docsOf opsA → d ∉ docsOf opsB) (M : KHeap K)
    (hM : commitSecondK H (KTx.facetRun F (KTx.start H ia) opsA) (KTx.facetRun F (KTx.start H ib) opsB) = some M) :
    let S := serialHeapFacet F H ia ib opsA opsB
    Keyword.ObsEq (M.view thr) (S.view thr) ∧
    (∀ (q : QObj K) (d : Int), d ∈ QObj.applyIndex (M.view thr) q ↔ d ∈ QObj.applyIndex (S.view thr) q) ∧
    (∀ (d : Int) (f : K), f ∈ kws M.rev d ↔ f ∈ kws S.rev d) ∧
    (∀ d : Int, AMap.get M.rev d = none ↔ AMap.get S.rev d = none) ∧
    M.len = S.len := by
  intro S
  have iM := (c19_facet_conflict_or_serial F H t hI ia ib hab hoa hob opsA opsB hdis M hM).inv
  have iS := (c19_facet_serial_refines F H t hI ia ib hab hoa hob opsA opsB).inv
  have jM := iM
  have jS := iS
  rw [← erase_view M thr] at iM
  rw [← erase_view S thr] at iS
  refine ⟨Keyword.obsEq_of_inv iM iS ⟨fun _ => Iff.rfl, fun _ _ => Iff.rfl⟩, ?_, ?_, ?_, ?_⟩
  · intro q d
    have vM : ViewOK (M.view thr).view (tableAfterFacet F t (opsA ++ opsB)) := by
      rw [← view_erase]; exact viewOK_of_inv iM.toInvCore
    have vS : ViewOK (S.view thr).view (tableAfterFacet F t (opsA ++ opsB)) := by
      rw [← view_erase]; exact viewOK_of_inv iS.toInvCore
    rw [applyIndex_sem vM, applyIndex_sem vS]
  · intro d f
    have a := jM.rev_mem d f
    have b := jS.rev_mem d f
    exact a.trans b.symm
  · intro d
    have a := jM.toInvCore.rev_none_iff d
    have b := jS.toInvCore.rev_none_iff d
    exact a.trans b.symm
  · have a : M.len = (pview M).rev.length := jM.num
    have b : S.len = (pview S).rev.length := jS.num
    have wM : AMap.WF M.rev := jM.wf_rev
    have wS : AMap.WF S.rev := jS.wf_rev
    rw [a, b]
    show ((M.rev.length : Nat) : Int) = ((S.rev.length : Nat) : Int)
    apply congrArg
    have hk : ∀ d, d ∈ AMap.keys M.rev ↔ d ∈ AMap.keys S.rev := by
      intro d
      have h1 := jM.toInvCore.rev_none_iff d
      have h2 := jS.toInvCore.rev_none_iff d
      have hn : AMap.get M.rev d = none ↔ AMap.get S.rev d = none := h1.trans h2.symm
      constructor
      · intro hm
        refine Classical.byContradiction fun hc => ?_
        exact (AMap.not_mem_keys_iff _ _).mpr (hn.mpr ((AMap.not_mem_keys_iff _ _).mp hc)) hm
      · intro hm
        refine Classical.byContradiction fun hc => ?_
        exact (AMap.not_mem_keys_iff _ _).mpr (hn.mp ((AMap.not_mem_keys_iff _ _).mp hc)) hm
    have e1 : M.rev.length = (AMap.keys M.rev).length := by simp [AMap.keys]
    have e2 : S.rev.length = (AMap.keys S.rev).length := by simp [AMap.keys]
    rw [e1, e2]
    exact (List.Perm.length_eq ((List.perm_ext_iff_of_nodup wM wS).mpr hk))

/-! ## non-vacuity: a merge that succeeds on shared facet postings, one that must fail

six configured facets `0 … 5`; a document's candidates are given directly (`[0, 1]` = path `a:b`). -/

/-- base: documents 1, 2, 3 under facets 0 and 1.  `a` indexes document 5 under 0, 1, 2 and moves
document 1 to facet 3; `b` unindexes 2 and indexes 4 under 0 and an unconfigured candidate 9: every
object merges; facet 0 lists {3, 4, 5}, facet 1 lists {3, 5}. -/
example :
    let F : List Int := [0, 1, 2, 3, 4, 5]
    let H : KHeap Int := (KTx.facetRun F (KTx.start {} 0)
      [.index 1 (some [0, 1]), .index 2 (some [0, 1]), .index 3 (some [0, 1])]).heap
    let a := KTx.facetRun F (KTx.start H 1) [.index 5 (some [0, 1, 2]), .index 1 (some [3])]
    let b := KTx.facetRun F (KTx.start H 2) [.unindex 2, .index 4 (some [0, 9])]
    ∃ M, commitSecondK H a b = some M ∧ (3 ∈ M.posting 0 ∧ 4 ∈ M.posting 0 ∧ 5 ∈ M.posting 0) ∧
      (M.posting 0).length = 3 ∧ (M.posting 1).length = 2 ∧ M.posting 2 = [5] ∧ M.posting 3 = [1] ∧
      M.posting 9 = [] ∧ AMap.get M.rev 4 = some [0] ∧ M.len = 4 := by
  refine ⟨_, rfl, ?_⟩
  decide

/-- `b` re-indexes the only document of facet 3 elsewhere (the posting is emptied and its key
deleted) while `a` inserts into it: refused -/
example :
    let F : List Int := [0, 1, 2, 3, 4, 5]
    let H : KHeap Int := (KTx.facetRun F (KTx.start {} 0) [.index 1 (some [3]), .index 2 (some [5])]).heap
    let a := KTx.facetRun F (KTx.start H 1) [.index 7 (some [3, 4])]
    let b := KTx.facetRun F (KTx.start H 2) [.index 1 (some [5])]
    commitSecondK H a b = none := by
  decide

/-- a document whose paths hit no configured facet, and a withdrawn one, on the two sides -/
example :
    let F : List Int := [0, 1]
    let H : KHeap Int := (KTx.facetRun F (KTx.start {} 0) [.index 1 (some [0]), .index 2 (some [1])]).heap
    let a := KTx.facetRun F (KTx.start H 1) [.index 1 (some [7, 8])]
    let b := KTx.facetRun F (KTx.start H 2) [.index 3 none, .index 4 (some [1])]
    ∃ M, commitSecondK H a b = some M ∧ M.posting 0 = [] ∧ (M.posting 1).length = 2 ∧ M.ni = [3] ∧
      AMap.get M.rev 1 = none ∧ M.len = 2 := by
  refine ⟨_, rfl, ?_⟩
  decide

/-! ## in the vocabulary of C13: facets as segment lists, calls with paths -/

open Hyp.Facet Hyp.Facet.Spec in
/-- a call as the facet index receives it (paths) ↦ the call of the object model (candidates:
the ':'-prefix expansions of the paths, `[':'.join(categories[:i]) …]`) -/
def TOp.expand : TOp (List Facet) → TOp (List Facet)
  | .index d v => .index d (v.map (fun paths => paths.flatMap prefixes))
  | .unindex d => .unindex d

/-- the facet-table step of C13 (`Facet.Spec.stepT`) for a C19 call -/
def TOp.toFacet : TOp (List Facet.Facet) → Facet.Op
  | .index d v => .index d v
  | .unindex d => .unindex d

/-- the facet table (docid ↦ paths last supplied / withdrawn) after the calls -/
def tableAfterPaths (T : Facet.Spec.Table) (ops : List (TOp (List Facet.Facet))) : Facet.Spec.Table :=
  ops.foldl (fun T op => Facet.Spec.stepT T op.toFacet) T

theorem docsOf_expand (ops : List (TOp (List Facet.Facet))) : docsOf (ops.map TOp.expand) = docsOf ops := by
  unfold docsOf
  rw [List.map_map]
  apply List.map_congr_left
  intro op _
  cases op <;> rfl

theorem TEquiv.trans' {t t' t'' : Table K} (a : TEquiv t t') (b : TEquiv t' t'') : TEquiv t t'' :=
  ⟨fun d => (a.1 d).trans (b.1 d), fun d k => (a.2 d k).trans (b.2 d k)⟩

theorem tequiv_set {t t' : Table K} (e : TEquiv t t') (d : Int) {v v' : Option (List K)}
    (hn : v = none ↔ v' = none) (hm : ∀ k, k ∈ v.getD [] ↔ k ∈ v'.getD []) :
    TEquiv (AMap.set t d v) (AMap.set t' d v') := by
  constructor
  · intro d'
    rw [AMap.get_set, AMap.get_set]
    by_cases h : d = d'
    · simp only [h, if_true, Option.some.injEq]; exact hn
    · simp only [h, if_false]; exact e.1 d'
  · intro d' k
    rw [kwOf_set, kwOf_set]
    by_cases h : d = d'
    · simp only [h, if_true]; exact hm k
    · simp only [h, if_false]; exact e.2 d' k

theorem tequiv_erase {t t' : Table K} (e : TEquiv t t') (d : Int) :
    TEquiv (AMap.erase t d) (AMap.erase t' d) := by
  constructor
  · intro d'
    rw [AMap.get_erase, AMap.get_erase]
    by_cases h : d = d'
    · simp [h]
    · simp only [h, if_false]; exact e.1 d'
  · intro d' k
    rw [kwOf_erase, kwOf_erase]
    by_cases h : d = d'
    · simp [h]
    · simp only [h, if_false]; exact e.2 d' k

open Hyp.Facet Hyp.Facet.Spec in
/-- the hits of the expanded candidates are the facets the paths are *listed* under (C13) -/
theorem mem_hits_listed (F : List Facet) (paths : List Facet) (f : Facet) :
    f ∈ (paths.flatMap prefixes).filter (· ∈ F) ↔ f ∈ listed F paths := by
  rw [mem_listed, List.mem_filter, List.mem_flatMap]
  simp only [mem_prefixes, decide_eq_true_eq]
  exact and_comm

open Hyp.Facet Hyp.Facet.Spec in
/-- the table of the object model's calls is C13's table docid ↦ listed facets of the facet table -/
theorem tequiv_tableAfterPaths (F : List Facet) : ∀ (ops : List (TOp (List Facet))) (t : Table Facet)
    (T : Facet.Spec.Table), TEquiv t (kwTable F T) →
    TEquiv (tableAfterFacet F t (ops.map TOp.expand)) (kwTable F (tableAfterPaths T ops)) := by
  intro ops
  induction ops with
  | nil => intro t T e; exact e
  | cons op ops ih =>
    intro t T e
    simp only [tableAfterFacet, tableAfterK, tableAfterPaths, List.map_cons, List.foldl_cons] at ih ⊢
    apply ih
    cases op with
    | index d v =>
      show TEquiv (AMap.set t d _) (kwTable F (AMap.set T d v))
      refine TEquiv.trans' (tequiv_set e d (v' := v.map (listed F)) ?_ ?_)
        (Facet.tequiv_of_get (fun d' => (get_kwTable_set F T d v d').symm))
      · cases v <;> simp
      · intro k
        cases v with
        | none => simp
        | some paths => simpa using mem_hits_listed F paths k
    | unindex d =>
      show TEquiv (AMap.erase t d) (kwTable F (AMap.erase T d))
      exact TEquiv.trans' (tequiv_erase e d)
        (Facet.tequiv_of_get (fun d' => (get_kwTable_erase F T d d').symm))

open Hyp.Facet Hyp.Facet.Spec in
/-- **Conflict or serial, in C13's terms.**  The base heap represents the facet table `T`
(`KOInv H (kwTable F T)`); the calls carry paths.  If the second commit succeeds, the stored heap
represents the facet table of the serial execution, and – as a `Facet.State` with the configured
facets, for any `tree_threshold` – satisfies C13's refinement invariant `FInv` for it; so does the
serially built heap. -/
theorem c19_facet_paths_conflict_or_serial (F : List Facet) (thr : Nat)
    (H : KHeap Facet) (T : Facet.Spec.Table) (hI : KOInv H (kwTable F T)) (ia ib : Nat) (hab : ia ≠ ib)
    (hoa : ∀ o, (AMap.get H.post o).isSome → o.1 ≠ ia) (hob : ∀ o, (AMap.get H.post o).isSome → o.1 ≠ ib)
    (opsA opsB : List (TOp (List Facet))) (hdis : ∀ d, d ∈ docsOf opsA → d ∉ docsOf opsB) (M : KHeap Facet)
    (hM : commitSecondK H (KTx.facetRun F (KTx.start H ia) (opsA.map TOp.expand))
            (KTx.facetRun F (KTx.start H ib) (opsB.map TOp.expand)) = some M) :
    let S := serialHeapFacet F H ia ib (opsA.map TOp.expand) (opsB.map TOp.expand)
    KOInv M (kwTable F (tableAfterPaths T (opsA ++ opsB))) ∧
    FInv F { facets := F, ks := M.view thr } (tableAfterPaths T (opsA ++ opsB)) ∧
    FInv F { facets := F, ks := S.view thr } (tableAfterPaths T (opsA ++ opsB)) := by
  intro S
  have hdis' : ∀ d, d ∈ docsOf (opsA.map TOp.expand) → d ∉ docsOf (opsB.map TOp.expand) := by
    intro d; rw [docsOf_expand, docsOf_expand]; exact hdis d
  have iM := c19_facet_conflict_or_serial F H _ hI ia ib hab hoa hob _ _ hdis' M hM
  have iS := c19_facet_serial_refines F H _ hI ia ib hab hoa hob (opsA.map TOp.expand) (opsB.map TOp.expand)
  have te := tequiv_tableAfterPaths F (opsA ++ opsB) (kwTable F T) T ⟨fun _ => Iff.rfl, fun _ _ => Iff.rfl⟩
  rw [List.map_append] at te
  refine ⟨⟨iM.inv.congr te, iM.wf⟩, ⟨rfl, ?_⟩, ⟨rfl, ?_⟩⟩
  · show Inv (erase (M.view thr)) _
    rw [erase_view]; exact iM.inv.congr te
  · show Inv (erase (S.view thr)) _
    rw [erase_view]; exact iS.inv.congr te

open Hyp.Facet Hyp.Facet.Spec in
/-- **`counts()` after a successful second commit = `counts()` of the serially built index =
C13's specification on the serial facet table**, for every docid list (unknown, withdrawn,
facet-less and repeated ids included), every omit list and every facet. -/
theorem c19_facet_counts_serial (F : List Facet) (hF : F.Nodup) (thr : Nat)
    (H : KHeap Facet) (T : Facet.Spec.Table) (hI : KOInv H (kwTable F T)) (ia ib : Nat) (hab : ia ≠ ib)
    (hoa : ∀ o, (AMap.get H.post o).isSome → o.1 ≠ ia) (hob : ∀ o, (AMap.get H.post o).isSome → o.1 ≠ ib)
    (opsA opsB : List (TOp (List Facet))) (hdis : ∀ d, d ∈ docsOf opsA → d ∉ docsOf opsB) (M : KHeap Facet)
    (hM : commitSecondK H (KTx.facetRun F (KTx.start H ia) (opsA.map TOp.expand))
            (KTx.facetRun F (KTx.start H ib) (opsB.map TOp.expand)) = some M)
    (ds : List Int) (om : List Facet) (f : Facet) :
    let S := serialHeapFacet F H ia ib (opsA.map TOp.expand) (opsB.map TOp.expand)
    AMap.get (Facet.counts { facets := F, ks := M.view thr } ds om) f =
      AMap.get (Facet.counts { facets := F, ks := S.view thr } ds om) f ∧
    AMap.get (Facet.counts { facets := F, ks := M.view thr } ds om) f =
      AMap.get (Spec.counts F (tableAfterPaths T (opsA ++ opsB)) ds om) f := by
  intro S
  obtain ⟨_, fM, fS⟩ := c19_facet_paths_conflict_or_serial F thr H T hI ia ib hab hoa hob opsA opsB hdis M hM
  have cM : AMap.get (Facet.counts { facets := F, ks := M.view thr } ds om) f =
      AMap.get (Spec.counts F (tableAfterPaths T (opsA ++ opsB)) ds om) f := by
    rw [counts_get _ hF, hits_eq fM, get_spec_counts _ hF]
    by_cases ho : omitted om f = true <;> simp [ho]
  have cS : AMap.get (Facet.counts { facets := F, ks := S.view thr } ds om) f =
      AMap.get (Spec.counts F (tableAfterPaths T (opsA ++ opsB)) ds om) f := by
    rw [counts_get _ hF, hits_eq fS, get_spec_counts _ hF]
    by_cases ho : omitted om f = true <;> simp [ho]
  exact ⟨cM.trans cS.symm, cM⟩

open Hyp.Facet Hyp.Facet.Spec in
/-- non-vacuity with paths: facets `a`, `a:b`, `d` (= `[1]`, `[1, 2]`, `[4]`); `a` indexes document 5
under path `a:b:c`, `b` unindexes document 2 (path `a:b`) and indexes document 4 under `a` and `x`:
the commit succeeds, and `counts([1 … 5, 5])` of the stored index is `a: 5, a:b: 3` (document 5
counted twice), with `omit_facets = ['a:b']` nothing but `d` could remain – empty -/
example :
    let F : List Facet := [[1], [1, 2], [4]]
    let base : List (TOp (List Facet)) := [.index 1 (some [[1, 2]]), .index 2 (some [[1, 2]]), .index 3 (some [[1]])]
    let H : KHeap Facet := (KTx.facetRun F (KTx.start {} 0) (base.map TOp.expand)).heap
    let opsA : List (TOp (List Facet)) := [.index 5 (some [[1, 2, 3]])]
    let opsB : List (TOp (List Facet)) := [.unindex 2, .index 4 (some [[1], [9]])]
    ∃ M, commitSecondK H (KTx.facetRun F (KTx.start H 1) (opsA.map TOp.expand))
        (KTx.facetRun F (KTx.start H 2) (opsB.map TOp.expand)) = some M ∧
      AMap.get (Facet.counts { facets := F, ks := M.view 64 } [1, 2, 3, 4, 5, 5] []) [1] = some 5 ∧
      AMap.get (Facet.counts { facets := F, ks := M.view 64 } [1, 2, 3, 4, 5, 5] []) [1, 2] = some 3 ∧
      Facet.counts { facets := F, ks := M.view 64 } [1, 2, 3, 4, 5, 5] [[1, 2]] = [] := by
  refine ⟨_, rfl, ?_⟩
  decide

end Hyp.CIdx
