import HypatiaProofs.Lemmas.ConcurrencyFieldMerge
import HypatiaProofs.Lemmas.ConcurrencyKeywordMerge2
import HypatiaProofs.Lemmas.KeywordQuery
import HypatiaProofs.Lemmas.KeywordObs
import HypatiaProofs.Lemmas.FieldQuery
import HypatiaProofs.Lemmas.FieldObs

/-!
# C19, per-index layer: which objects hypatia's own operations read and write

`Properties/C19.lean` carries the generic optimistic-commit theorem.  Here the **field index** and
the **keyword index** are laid out as the persistent objects ZODB stores
(`HypatiaModel/ConcurrencyIndex.lean`: forward tree `key ↦ reference`, one posting object per key
with its own identity – for the keyword index a small `Set` or a `TreeSet`, a *different object*
after `_insert_forward` replaced the set at `tree_threshold` –, reverse tree, not-indexed set,
`Length`), their operations log what they read and write, and the second commit merges object by
object with BTrees' rules (per key three-way merge; conflict when both sides changed a key;
conflict when the committed or the new state of a set/bucket is empty, or the merged one would be).

Proved, for the field index and for the keyword index (code as repaired for D20, any
`tree_threshold`): for **every** base state satisfying the object-level form of the C01 / C02
refinement invariant (`OInv` / `KOInv`: the invariant on the heap with references resolved +
references resolve and are not shared), **every** pair of operation lists (`index_doc` /
`reindex_doc` / `unindex_doc`, with or without a value) on disjoint docids: the second commit
either reports a conflict, or the merged heap satisfies the invariant for the document table
"first transaction's calls, then the second's" – the table the serial execution represents;
hence forward/reverse agreement, `Length` = number of reverse entries, every query answer and
every statistic coincide with serial execution (`…_conflict_or_serial`, `…_merged_observes_serial`).

The generic theorem's hypothesis "the second transaction read nothing the first one wrote" is
*false* for hypatia (the truth test `if not set:` reads the whole posting the other side inserted
into); what makes the property hold is the empty-state rule of `Set._p_resolveConflict`, which is
therefore part of the model and used in `merged_posting` / `kmerged_posting`.  For the keyword
index it holds only because the repaired `_insert_forward` empties the set it replaces:
`c19_d20_unrepaired_loses_update` is the counterexample for the code before the repair.

The text index (lexicon, dict- and `IFBTree`-valued postings, `DICT_CUTOFF` switch) has the same
theorems in `Properties/C19Text.lean` and `Properties/C19TextFull.lean`.
The facet index (own `index_doc`, inherited `unindex_doc`; no replacement step) has the same theorems in
`Properties/C19Facet.lean`.
-/
set_option linter.unusedSectionVars false
namespace Hyp.CIdx
open Hyp Hyp.Field Hyp.Field.Spec

variable {V : Type} [DecidableEq V] [LT V] [DecidableLT V] [LE V] [DecidableLE V]

/-- the empty index satisfies the object-level invariant -/
theorem c19_field_init : OInv ({} : FHeap V) ([] : Table V) :=
  ⟨inv_of_sim (sim_view _) (inv_init (V := V)) AMap.WF_nil,
   ⟨fun _ _ h => by simp at h, fun _ _ _ h => by simp at h, AMap.WF_nil⟩⟩

/-- **One transaction** (also: the first committer, and serial execution): from a snapshot that
satisfies the invariant, any list of calls leaves a heap that satisfies it for the table the calls
produce. -/
theorem c19_field_txn_refines (H : FHeap V) (t : Table V) (hI : OInv H t) (me : Nat)
    (hown : ∀ o, (AMap.get H.post o).isSome → o.1 ≠ me) (ops : List (TOp V)) :
    OInv ((FTx.start H me).run ops).heap (tableAfter t ops) :=
  (run_spec hI me hown ops).1

/-- every state a transaction `0` builds from the empty index (the driver's base states) satisfies
the hypotheses of the theorems below: the invariant holds and all posting objects belong to `0` -/
theorem c19_field_reachable_base (ops0 : List (TOp V)) :
    let H := ((FTx.start ({} : FHeap V) 0).run ops0).heap
    OInv H (tableAfter [] ops0) ∧ ∀ o, (AMap.get H.post o).isSome → o.1 = 0 := by
  refine ⟨c19_field_txn_refines _ _ c19_field_init 0 (fun _ h => by simp at h) ops0, ?_⟩
  intro o ho
  rcases run_owner c19_field_init 0 (fun _ h => by simp at h) ops0 o ho with h | h
  · simp at h
  · exact h

/-- **Conflict or serial – field index.**  `a` and `b` start from the committed state `H`
(invariant `OInv H t`), run `opsA` / `opsB` on disjoint docids; `a` commits, then `b`.
If the commit does not raise ConflictError (`commitSecond … = some M`), the stored heap `M`
satisfies the refinement invariant for the table of the serial execution `opsA ++ opsB`. -/
theorem c19_field_conflict_or_serial (H : FHeap V) (t : Table V) (hI : OInv H t)
    (ia ib : Nat) (hab : ia ≠ ib)
    (hoa : ∀ o, (AMap.get H.post o).isSome → o.1 ≠ ia) (hob : ∀ o, (AMap.get H.post o).isSome → o.1 ≠ ib)
    (opsA opsB : List (TOp V)) (hdis : ∀ d, d ∈ docsOf opsA → d ∉ docsOf opsB) (M : FHeap V)
    (hM : commitSecond H ((FTx.start H ia).run opsA) ((FTx.start H ib).run opsB) = some M) :
    OInv M (tableAfter t (opsA ++ opsB)) := by
  obtain ⟨iA, fA⟩ := run_spec hI ia hoa opsA
  obtain ⟨iB, fB⟩ := run_spec hI ib hob opsB
  have c : Ctx H t ((FTx.start H ia).run opsA) ((FTx.start H ib).run opsB)
      (tableAfter t opsA) (tableAfter t opsB) (docsOf opsA) (docsOf opsB) :=
    ⟨hI, iA, iB, fA, fB, hdis, by rw [run_me, run_me]; exact hab⟩
  have hta : tableAfter t (opsA ++ opsB) = tableAfter (tableAfter t opsA) opsB := by
    simp [tableAfter, List.foldl_append]
  rw [hta]
  apply merged_inv c hM (wf_tableAfter _ _ (wf_tableAfter _ _ hI.inv.wf_t))
  intro d
  by_cases hd : d ∈ docsOf opsB
  · simp only [hd, if_true]
    exact get_tableAfter_congr opsB _ _ d (get_tableAfter_out opsA t d (fun e => hdis d e hd))
  · simp only [hd, if_false]
    exact get_tableAfter_out opsB _ d hd

/-- the heap of the serial execution: `b`'s calls run in a new transaction on `a`'s committed heap -/
def serialHeap (H : FHeap V) (ia ib : Nat) (opsA opsB : List (TOp V)) : FHeap V :=
  ((FTx.start ((FTx.start H ia).run opsA).heap ib).run opsB).heap

theorem c19_field_serial_refines (H : FHeap V) (t : Table V) (hI : OInv H t)
    (ia ib : Nat) (hab : ia ≠ ib)
    (hoa : ∀ o, (AMap.get H.post o).isSome → o.1 ≠ ia) (hob : ∀ o, (AMap.get H.post o).isSome → o.1 ≠ ib)
    (opsA opsB : List (TOp V)) :
    OInv (serialHeap H ia ib opsA opsB) (tableAfter t (opsA ++ opsB)) := by
  obtain ⟨iA, fA⟩ := run_spec hI ia hoa opsA
  have hta : tableAfter t (opsA ++ opsB) = tableAfter (tableAfter t opsA) opsB := by
    simp [tableAfter, List.foldl_append]
  rw [hta]
  apply c19_field_txn_refines _ _ iA ib
  intro o ho
  rcases run_owner hI ia hoa opsA o ho with h | h
  · exact hob o h
  · exact fun e => hab (h.symm.trans e)

/-- merged = serial, observed through everything C01 and C06 talk about: membership in the
answer of every range / equality / any-of query and their negations, enumeration and statistics -/
theorem c19_field_merged_observes_serial (o : OrdLaws V) (H : FHeap V) (t : Table V) (hI : OInv H t)
    (ia ib : Nat) (hab : ia ≠ ib)
    (hoa : ∀ o, (AMap.get H.post o).isSome → o.1 ≠ ia) (hob : ∀ o, (AMap.get H.post o).isSome → o.1 ≠ ib)
    (opsA opsB : List (TOp V)) (hdis : ∀ d, d ∈ docsOf opsA → d ∉ docsOf opsB) (M : FHeap V)
    (hM : commitSecond H ((FTx.start H ia).run opsA) ((FTx.start H ib).run opsB) = some M) :
    let S := serialHeap H ia ib opsA opsB
    ObsEq M.view S.view ∧
    (∀ lo hi exlo exhi d, d ∈ applyInRange M.view lo hi exlo exhi ↔ d ∈ applyInRange S.view lo hi exlo exhi) ∧
    (∀ lo hi exlo exhi d, d ∈ applyNotInRange M.view lo hi exlo exhi ↔
      d ∈ applyNotInRange S.view lo hi exlo exhi) ∧
    (∀ qs d, d ∈ applyAny M.view qs ↔ d ∈ applyAny S.view qs) ∧
    (∀ qs d, d ∈ applyNotAny M.view qs ↔ d ∈ applyNotAny S.view qs) ∧
    (∀ q d, d ∈ applyEq M.view q ↔ d ∈ applyEq S.view q) ∧
    (∀ q d, d ∈ applyNotEq M.view q ↔ d ∈ applyNotEq S.view q) := by
  intro S
  have iM := (c19_field_conflict_or_serial H t hI ia ib hab hoa hob opsA opsB hdis M hM).inv
  have iS := (c19_field_serial_refines H t hI ia ib hab hoa hob opsA opsB).inv
  have hr : ∀ lo hi exlo exhi d, d ∈ applyInRange M.view lo hi exlo exhi ↔
      d ∈ applyInRange S.view lo hi exlo exhi := by
    intro lo hi exlo exhi d; rw [mem_applyInRange iM, mem_applyInRange iS]
  have ha : ∀ qs d, d ∈ searchOr M.view qs ↔ d ∈ searchOr S.view qs := by
    intro qs d; rw [mem_searchOr iM o, mem_searchOr iS o]
  refine ⟨obsEq_of_inv iM iS (fun _ => rfl), hr, ?_, ha, ?_, fun q => ha [q], ?_⟩
  · intro lo hi exlo exhi d
    unfold applyNotInRange
    rw [mem_negate iM, mem_negate iS]; exact mem_neg_congr _ _ _ (hr lo hi exlo exhi) d
  · intro qs d
    unfold applyNotAny applyAny
    rw [mem_negate iM, mem_negate iS]; exact mem_neg_congr _ _ _ (ha qs) d
  · intro q d
    unfold applyNotEq applyEq
    rw [mem_negate iM, mem_negate iS]; exact mem_neg_congr _ _ _ (ha [q]) d


/-! ## non-vacuity for the field index: a merge that succeeds on a shared posting, one that must fail -/

/-- base: documents 1, 2, 3 hold value 7; `a` adds document 5 with value 7 and moves 1 to value 9;
`b` removes 2 and adds 4 with value 7: every object merges, and the merged posting of 7 is {3,4,5} -/
example :
    let H : FHeap Int := ((FTx.start {} 0).run [.index 1 (some 7), .index 2 (some 7), .index 3 (some 7)]).heap
    let a := (FTx.start H 1).run [.index 5 (some 7), .index 1 (some 9)]
    let b := (FTx.start H 2).run [.unindex 2, .index 4 (some 7)]
    ∃ M, commitSecond H a b = some M ∧ (3 ∈ M.posting 7 ∧ 4 ∈ M.posting 7 ∧ 5 ∈ M.posting 7) ∧
      (M.posting 7).length = 3 ∧ M.posting 9 = [1] ∧ M.len = 4 := by
  refine ⟨_, rfl, ?_⟩
  decide

/-- `b` empties the posting of value 7 (and deletes the key) while `a` inserts into it: refused -/
example :
    let H : FHeap Int := ((FTx.start {} 0).run [.index 1 (some 7), .index 2 (some 8)]).heap
    let a := (FTx.start H 1).run [.index 5 (some 7)]
    let b := (FTx.start H 2).run [.unindex 1]
    commitSecond H a b = none := by
  decide

/-! ## keyword index: the threshold replacement (D20)

`KeywordIndex._insert_forward` replaces a small `Set` posting by a `TreeSet` **object** when it
reaches `tree_threshold`.  A concurrent transaction that started from the same snapshot still
holds the old `Set`; if it changes that set without crossing the threshold (remove one member,
add one), both transactions wrote the old set object and the per-member merge *succeeds* – into
an object the forward tree no longer refers to.  The repaired code empties the replaced set, so
that `Set._p_resolveConflict` refuses (committed state empty).
-/

/-- the D20 schedule: keyword 7 is held by documents 1, 2, 3 in a small `Set` -/
def d20Base (c : KCfg) : KHeap Int :=
  (KTx.run c (KTx.start {} 0) [.index 1 (some [7]), .index 2 (some [7]), .index 3 (some [7])]).heap
/-- `a` indexes document 5 under keyword 7: with `tree_threshold = 4` the set is replaced -/
def d20A (c : KCfg) : KTx Int := KTx.run c (KTx.start (d20Base c) 1) [.index 5 (some [7])]
/-- `b` unindexes document 2 and indexes document 4 under keyword 7: no crossing -/
def d20OpsB : List (TOp (List Int)) := [.unindex 2, .index 4 (some [7])]
def d20B (c : KCfg) : KTx Int := KTx.run c (KTx.start (d20Base c) 2) d20OpsB
def d20Serial (c : KCfg) : KHeap Int := (KTx.run c (KTx.start (d20A c).heap 2) d20OpsB).heap

/-- **(a)** With the *unrepaired* replacement (the old set is left as it is) every object merges,
and the stored index differs from serial execution: keyword 7 still lists document 2 (which has no
reverse entry any more) and does not list document 4 (which has one). -/
theorem c19_d20_unrepaired_loses_update :
    let c : KCfg := { thr := 4, clearReplaced := false }
    ∃ M, commitSecondK (d20Base c) (d20A c) (d20B c) = some M ∧
      (2 ∈ M.posting 7 ∧ 4 ∉ M.posting 7 ∧ AMap.get M.rev 2 = none ∧ AMap.get M.rev 4 = some [7]) ∧
      (2 ∉ (d20Serial c).posting 7 ∧ 4 ∈ (d20Serial c).posting 7) := by
  refine ⟨_, rfl, ?_⟩
  decide

/-- the same schedule on the repaired code: ConflictError -/
theorem c19_d20_repaired_conflicts :
    let c : KCfg := { thr := 4, clearReplaced := true }
    commitSecondK (d20Base c) (d20A c) (d20B c) = none := by
  decide

variable {K : Type} [DecidableEq K]

/-- **(b)** With the repaired code, for **all** base heaps (references resolve and are not
shared), all thresholds, all operation lists of the first committer `a` and *any* second
transaction `b`: whenever `a` replaced (or dropped) the posting object `o` the snapshot's forward
tree referred to under `k`, and `b` wrote `o`, the merge of `o` fails – whatever state `b` left it
in – and with it the commit. -/
theorem c19_replacement_conflicts (c : KCfg) (hc : c.clearReplaced = true) (H : KHeap K) (hw : KWf H)
    (ia : Nat) (hoa : ∀ o, (AMap.get H.post o).isSome → o.1 ≠ ia) (opsA : List (TOp (List K)))
    (k : K) (o : Oid) (s0 : Keyword.Tag × List Int) (h0 : AMap.get H.fwd k = some o) (hs0 : AMap.get H.post o = some s0)
    (hrep : AMap.get (KTx.run c (KTx.start H ia) opsA).heap.fwd k ≠ some o)
    (b : KTx K) (hb : dirty b.writes (.post o) = true) :
    let a := KTx.run c (KTx.start H ia) opsA
    (∀ sb, mergeObj resolvePosting (dirty a.writes (.post o)) (dirty b.writes (.post o)) s0
        ((AMap.get a.heap.post o).getD s0) sb = none) ∧
    (∀ sb, AMap.get b.heap.post o = some sb → commitSecondK H a b = none) := by
  intro a
  obtain ⟨⟨t, he⟩, hd⟩ := run_repl hw c hc ia hoa opsA h0 hrep
  have hm : ∀ sb, mergeObj resolvePosting (dirty a.writes (.post o)) (dirty b.writes (.post o)) s0
      ((AMap.get a.heap.post o).getD s0) sb = none := by
    intro sb
    show mergeObj resolvePosting (dirty (KTx.run c (KTx.start H ia) opsA).writes (.post o)) _ s0
      ((AMap.get (KTx.run c (KTx.start H ia) opsA).heap.post o).getD s0) sb = none
    rw [hd, hb, he]
    simp [mergeObj, resolvePosting_com_empty]
  exact ⟨hm, fun sb hsb => commitSecondK_none_of_post hs0 hsb (hm sb)⟩

/-- the hypotheses of (b) are met by the D20 schedule -/
example :
    let c : KCfg := { thr := 4, clearReplaced := true }
    AMap.get (d20Base c).fwd 7 = some (0, 0) ∧ AMap.get (d20A c).heap.fwd 7 ≠ some (0, 0) ∧
    dirty (d20B c).writes (.post (0, 0)) = true := by
  decide

/-- A successful commit never merges two transactions' changes into a posting object that one of
them has replaced or dropped – the way D20 lost updates – for all bases, thresholds and operation
lists (a corollary of (b) and its mirror image; kept as a separate statement because it does not
need the refinement invariant, only that references resolve and are not shared). -/
theorem c19_keyword_no_orphan_merge (c : KCfg) (hc : c.clearReplaced = true)
    (H : KHeap K) (hw : KWf H) (ia ib : Nat)
    (hoa : ∀ o, (AMap.get H.post o).isSome → o.1 ≠ ia) (hob : ∀ o, (AMap.get H.post o).isSome → o.1 ≠ ib)
    (opsA opsB : List (TOp (List K))) (M : KHeap K)
    (hM : commitSecondK H (KTx.run c (KTx.start H ia) opsA) (KTx.run c (KTx.start H ib) opsB) = some M)
    (k : K) (o : Oid) (h0 : AMap.get H.fwd k = some o)
    (hda : dirty (KTx.run c (KTx.start H ia) opsA).writes (.post o) = true)
    (hdb : dirty (KTx.run c (KTx.start H ib) opsB).writes (.post o) = true) :
    AMap.get (KTx.run c (KTx.start H ia) opsA).heap.fwd k = some o ∧
    AMap.get (KTx.run c (KTx.start H ib) opsB).heap.fwd k = some o := by
  obtain ⟨s0, hs0⟩ := Option.isSome_iff_exists.mp (hw.refs k o h0)
  have kb := ks_run c hc opsB _ (ks_start hw ib hob)
  obtain ⟨sb, hsb⟩ := Option.isSome_iff_exists.mp (kb.base_keep o (hw.refs k o h0))
  constructor
  · refine Classical.byContradiction fun hrep => ?_
    have := (c19_replacement_conflicts c hc H hw ia hoa opsA k o s0 h0 hs0 hrep _ hdb).2 sb hsb
    rw [this] at hM; cases hM
  · refine Classical.byContradiction fun hrep => ?_
    obtain ⟨⟨t, he⟩, _⟩ := run_repl hw c hc ib hob opsB h0 hrep
    have : commitSecondK H (KTx.run c (KTx.start H ia) opsA) (KTx.run c (KTx.start H ib) opsB) = none :=
      commitSecondK_none_of_post hs0 he (by rw [hda, hdb]; simp [mergeObj, resolvePosting_new_empty])
    rw [this] at hM; cases hM


/-! ## keyword index: conflict or serial, in full -/

open Hyp.Keyword Hyp.Keyword.Spec in
/-- the empty keyword index satisfies the object-level invariant -/
theorem c19_keyword_init : KOInv ({} : KHeap K) ([] : Keyword.Spec.Table K) :=
  ⟨kinv_of_sim (ksim_pview _) (Keyword.inv_init (K := K)) AMap.WF_nil,
   ⟨fun _ _ h => by simp at h, fun _ _ _ h => by simp at h, AMap.WF_nil⟩⟩

open Hyp.Keyword Hyp.Keyword.Spec in
/-- **One keyword transaction** of the repaired code refines the C02 model: from a snapshot that
satisfies the object-level C02 invariant, any list of calls leaves a heap that satisfies it for
the table the calls produce (any `tree_threshold`). -/
theorem c19_keyword_txn_refines (c : KCfg) (hc : c.clearReplaced = true) (H : KHeap K) (t : Keyword.Spec.Table K)
    (hI : KOInv H t) (me : Nat) (hown : ∀ o, (AMap.get H.post o).isSome → o.1 ≠ me)
    (ops : List (TOp (List K))) :
    KOInv (KTx.run c (KTx.start H me) ops).heap (tableAfterK t ops) :=
  (krun_spec hI c hc me hown ops).1

open Hyp.Keyword Hyp.Keyword.Spec in
/-- the driver's base states of the keyword index satisfy the hypotheses of the theorems below -/
theorem c19_keyword_reachable_base (c : KCfg) (hc : c.clearReplaced = true) (ops0 : List (TOp (List K))) :
    let H := (KTx.run c (KTx.start ({} : KHeap K) 0) ops0).heap
    KOInv H (tableAfterK [] ops0) ∧ ∀ o, (AMap.get H.post o).isSome → o.1 = 0 := by
  refine ⟨c19_keyword_txn_refines c hc _ _ c19_keyword_init 0 (fun _ h => by simp at h) ops0, ?_⟩
  intro o ho
  have := (krun_spec c19_keyword_init c hc 0 (fun _ h => by simp at h) ops0).2.f.fresh_owner o ho
  rw [krun_me] at this
  rcases this with h | h
  · simp at h
  · exact h

open Hyp.Keyword Hyp.Keyword.Spec in
/-- **Conflict or serial – keyword index** (repaired code, any `tree_threshold`, crossing it in
either transaction included).  `a` and `b` start from the committed state `H` (object-level C02
invariant), run `opsA` / `opsB` on disjoint docids; `a` commits, then `b`.  If the commit does not
raise ConflictError, the stored heap satisfies the C02 refinement invariant for the table of the
serial execution `opsA ++ opsB`, references resolve and no posting object is shared. -/
theorem c19_keyword_conflict_or_serial (c : KCfg) (hc : c.clearReplaced = true)
    (H : KHeap K) (t : Keyword.Spec.Table K) (hI : KOInv H t) (ia ib : Nat) (hab : ia ≠ ib)
    (hoa : ∀ o, (AMap.get H.post o).isSome → o.1 ≠ ia) (hob : ∀ o, (AMap.get H.post o).isSome → o.1 ≠ ib)
    (opsA opsB : List (TOp (List K))) (hdis : ∀ d, d ∈ docsOf opsA → d ∉ docsOf opsB) (M : KHeap K)
    (hM : commitSecondK H (KTx.run c (KTx.start H ia) opsA) (KTx.run c (KTx.start H ib) opsB) = some M) :
    KOInv M (tableAfterK t (opsA ++ opsB)) := by
  obtain ⟨iA, gA⟩ := krun_spec hI c hc ia hoa opsA
  obtain ⟨iB, gB⟩ := krun_spec hI c hc ib hob opsB
  have ctx : KCtx H t (KTx.run c (KTx.start H ia) opsA) (KTx.run c (KTx.start H ib) opsB)
      (tableAfterK t opsA) (tableAfterK t opsB) (docsOf opsA) (docsOf opsB) :=
    ⟨hI, iA, iB, gA, gB, hdis, by rw [krun_me, krun_me]; exact hab⟩
  have hta : tableAfterK t (opsA ++ opsB) = tableAfterK (tableAfterK t opsA) opsB := by
    simp [tableAfterK, List.foldl_append]
  rw [hta]
  apply kmerged_inv ctx hM
  intro d
  by_cases hd : d ∈ docsOf opsB
  · simp only [hd, if_true]
    exact get_tableAfterK_congr opsB _ _ d (get_tableAfterK_out opsA t d (fun e => hdis d e hd))
  · simp only [hd, if_false]
    exact get_tableAfterK_out opsB _ d hd

/-- the heap of the serial execution of two keyword transactions -/
def serialHeapK (c : KCfg) (H : KHeap K) (ia ib : Nat) (opsA opsB : List (TOp (List K))) : KHeap K :=
  (KTx.run c (KTx.start (KTx.run c (KTx.start H ia) opsA).heap ib) opsB).heap

open Hyp.Keyword Hyp.Keyword.Spec in
theorem c19_keyword_serial_refines (c : KCfg) (hc : c.clearReplaced = true)
    (H : KHeap K) (t : Keyword.Spec.Table K) (hI : KOInv H t) (ia ib : Nat) (hab : ia ≠ ib)
    (hoa : ∀ o, (AMap.get H.post o).isSome → o.1 ≠ ia) (hob : ∀ o, (AMap.get H.post o).isSome → o.1 ≠ ib)
    (opsA opsB : List (TOp (List K))) :
    KOInv (serialHeapK c H ia ib opsA opsB) (tableAfterK t (opsA ++ opsB)) := by
  obtain ⟨iA, gA⟩ := krun_spec hI c hc ia hoa opsA
  have hta : tableAfterK t (opsA ++ opsB) = tableAfterK (tableAfterK t opsA) opsB := by
    simp [tableAfterK, List.foldl_append]
  rw [hta]
  apply c19_keyword_txn_refines c hc _ _ iA ib
  intro o ho
  rcases gA.f.fresh_owner o ho with h | h
  · exact hob o h
  · rw [krun_me] at h; exact fun e => hab (h.symm.trans e)

open Hyp.Keyword Hyp.Keyword.Spec in
/-- merged = serial for the keyword index, in the vocabulary of C02 and C06: every index entry
point (`Eq`, `NotEq`, `Any`, `NotAny`, `All`, `NotAll`) returns the same documents on the stored
index and on the serially built one, and every enumeration / statistic coincides -/
theorem c19_keyword_merged_observes_serial (c : KCfg) (hc : c.clearReplaced = true)
    (H : KHeap K) (t : Keyword.Spec.Table K) (hI : KOInv H t) (ia ib : Nat) (hab : ia ≠ ib)
    (hoa : ∀ o, (AMap.get H.post o).isSome → o.1 ≠ ia) (hob : ∀ o, (AMap.get H.post o).isSome → o.1 ≠ ib)
    (opsA opsB : List (TOp (List K))) (hdis : ∀ d, d ∈ docsOf opsA → d ∉ docsOf opsB) (M : KHeap K)
    (hM : commitSecondK H (KTx.run c (KTx.start H ia) opsA) (KTx.run c (KTx.start H ib) opsB) = some M) :
    let S := serialHeapK c H ia ib opsA opsB
    Keyword.ObsEq (M.view c.thr) (S.view c.thr) ∧
    ∀ (q : QObj K) (d : Int), d ∈ QObj.applyIndex (M.view c.thr) q ↔ d ∈ QObj.applyIndex (S.view c.thr) q := by
  intro S
  have iM := (c19_keyword_conflict_or_serial c hc H t hI ia ib hab hoa hob opsA opsB hdis M hM).inv
  have iS := (c19_keyword_serial_refines c hc H t hI ia ib hab hoa hob opsA opsB).inv
  rw [← erase_view M c.thr] at iM
  rw [← erase_view S c.thr] at iS
  refine ⟨Keyword.obsEq_of_inv iM iS ⟨fun _ => Iff.rfl, fun _ _ => Iff.rfl⟩, ?_⟩
  intro q d
  have vM : ViewOK (M.view c.thr).view (tableAfterK t (opsA ++ opsB)) := by
    rw [← view_erase]; exact viewOK_of_inv iM.toInvCore
  have vS : ViewOK (S.view c.thr).view (tableAfterK t (opsA ++ opsB)) := by
    rw [← view_erase]; exact viewOK_of_inv iS.toInvCore
  rw [applyIndex_sem vM, applyIndex_sem vS]

/-- non-vacuity of `c19_keyword_conflict_or_serial`: both transactions change the posting of
keyword 7 (no threshold crossing), every object merges, the stored posting is {1, 3, 4, 5} -/
example :
    let c : KCfg := { thr := 10 }
    let H := d20Base c
    let a := KTx.run c (KTx.start H 1) [.index 5 (some [7, 8])]
    let b := KTx.run c (KTx.start H 2) d20OpsB
    ∃ M, commitSecondK H a b = some M ∧ (1 ∈ M.posting 7 ∧ 3 ∈ M.posting 7 ∧ 4 ∈ M.posting 7 ∧ 5 ∈ M.posting 7) ∧
      (M.posting 7).length = 4 ∧ M.posting 8 = [5] ∧ M.len = 4 := by
  refine ⟨_, rfl, ?_⟩
  decide

end Hyp.CIdx
