import HypatiaProofs.Lemmas.ConcurrencyFieldMerge
import HypatiaProofs.Lemmas.FieldQuery
import HypatiaProofs.Lemmas.FieldObs

/-!
# C19, per-index layer: which objects hypatia's own operations read and write

`Properties/C19.lean` carries the generic optimistic-commit theorem.  Here the **field index** is
laid out as the persistent objects ZODB stores (`HypatiaModel/ConcurrencyIndex.lean`: forward tree
`value ↦ reference`, one posting object per value with its own identity, reverse tree,
not-indexed set, `Length`), its operations log what they read and write, and the second commit
merges object by object with BTrees' rules (per key three-way merge; conflict when both sides
changed a key; conflict when the committed or the new state of a set/bucket is empty, or the
merged one would be).

Proved for **every** base state satisfying the object-level form of the C01 refinement invariant
(`OInv`: the C01 invariant on the heap with references resolved + references resolve and are not
shared), **every** pair of operation lists (`index_doc` / `reindex_doc` / `unindex_doc`, with or
without a value) on disjoint docids: the second commit either reports a conflict, or the merged
heap satisfies the invariant for the document table "first transaction's calls, then the
second's" – the same table the serial execution represents; hence forward/reverse agreement,
`Length` = number of reverse entries, every query answer and every statistic coincide with serial
execution.

The generic theorem's hypothesis "the second transaction read nothing the first one wrote" is
*false* for hypatia (the truth test `if not set:` reads the whole posting the other side inserted
into); what makes the property hold is the empty-state rule of `Set._p_resolveConflict`, which is
therefore part of the model and used in `merged_posting`.
-/
set_option linter.unusedSectionVars false
namespace Hyp.CIdx
open Hyp Hyp.Field Hyp.Field.Spec

variable {V : Type} [DecidableEq V] [LT V] [DecidableLT V] [LE V] [DecidableLE V]

/-- the empty index satisfies the object-level invariant -/
theorem c19_field_init : OInv ({} : FHeap V) ([] : Table V) :=
  ⟨inv_of_sim (sim_view _) (inv_init (V := V)) AMap.WF_nil,
   ⟨fun _ _ h => by simp at h, fun _ _ _ h => by simp at h, AMap.WF_nil⟩⟩

/-- **One transaction** (also: the first committer, and serial execution): from a snapshot that
satisfies the invariant, any list of calls leaves a heap that satisfies it for the table the calls
produce. -/
theorem c19_field_txn_refines (H : FHeap V) (t : Table V) (hI : OInv H t) (me : Nat)
    (hown : ∀ o, (AMap.get H.post o).isSome → o.1 ≠ me) (ops : List (TOp V)) :
    OInv ((FTx.start H me).run ops).heap (tableAfter t ops) :=
  (run_spec hI me hown ops).1

/-- **Conflict or serial – field index.**  `a` and `b` start from the committed state `H`
(invariant `OInv H t`), run `opsA` / `opsB` on disjoint docids; `a` commits, then `b`.
If the commit does not raise ConflictError (`commitSecond … = some M`), the stored heap `M`
satisfies the refinement invariant for the table of the serial execution `opsA ++ opsB`. -/
theorem c19_field_conflict_or_serial (H : FHeap V) (t : Table V) (hI : OInv H t)
    (ia ib : Nat) (hab : ia ≠ ib)
    (hoa : ∀ o, (AMap.get H.post o).isSome → o.1 ≠ ia) (hob : ∀ o, (AMap.get H.post o).isSome → o.1 ≠ ib)
    (opsA opsB : List (TOp V)) (hdis : ∀ d, d ∈ docsOf opsA → d ∉ docsOf opsB) (M : FHeap V)
    (hM : commitSecond H ((FTx.start H ia).run opsA) ((FTx.start H ib).run opsB) = some M) :
    OInv M (tableAfter t (opsA ++ opsB)) := by
  obtain ⟨iA, fA⟩ := run_spec hI ia hoa opsA
  obtain ⟨iB, fB⟩ := run_spec hI ib hob opsB
  have c : Ctx H t ((FTx.start H ia).run opsA) ((FTx.start H ib).run opsB)
      (tableAfter t opsA) (tableAfter t opsB) (docsOf opsA) (docsOf opsB) :=
    ⟨hI, iA, iB, fA, fB, hdis, by rw [run_me, run_me]; exact hab⟩
  have hta : tableAfter t (opsA ++ opsB) = tableAfter (tableAfter t opsA) opsB := by
    simp [tableAfter, List.foldl_append]
  rw [hta]
  apply merged_inv c hM (wf_tableAfter _ _ (wf_tableAfter _ _ hI.inv.wf_t))
  intro d
  by_cases hd : d ∈ docsOf opsB
  · simp only [hd, if_true]
    exact get_tableAfter_congr opsB _ _ d (get_tableAfter_out opsA t d (fun e => hdis d e hd))
  · simp only [hd, if_false]
    exact get_tableAfter_out opsB _ d hd

/-- the heap of the serial execution: `b`'s calls run in a new transaction on `a`'s committed heap -/
def serialHeap (H : FHeap V) (ia ib : Nat) (opsA opsB : List (TOp V)) : FHeap V :=
  ((FTx.start ((FTx.start H ia).run opsA).heap ib).run opsB).heap

theorem c19_field_serial_refines (H : FHeap V) (t : Table V) (hI : OInv H t)
    (ia ib : Nat) (hab : ia ≠ ib)
    (hoa : ∀ o, (AMap.get H.post o).isSome → o.1 ≠ ia) (hob : ∀ o, (AMap.get H.post o).isSome → o.1 ≠ ib)
    (opsA opsB : List (TOp V)) :
    OInv (serialHeap H ia ib opsA opsB) (tableAfter t (opsA ++ opsB)) := by
  obtain ⟨iA, fA⟩ := run_spec hI ia hoa opsA
  have hta : tableAfter t (opsA ++ opsB) = tableAfter (tableAfter t opsA) opsB := by
    simp [tableAfter, List.foldl_append]
  rw [hta]
  apply c19_field_txn_refines _ _ iA ib
  intro o ho
  rcases run_owner hI ia hoa opsA o ho with h | h
  · exact hob o h
  · exact fun e => hab (h.symm.trans e)

/-- merged = serial, observed through everything C01 and C06 talk about: membership in the
answer of every range / equality / any-of query and their negations, enumeration and statistics -/
theorem c19_field_merged_observes_serial (o : OrdLaws V) (H : FHeap V) (t : Table V) (hI : OInv H t)
    (ia ib : Nat) (hab : ia ≠ ib)
    (hoa : ∀ o, (AMap.get H.post o).isSome → o.1 ≠ ia) (hob : ∀ o, (AMap.get H.post o).isSome → o.1 ≠ ib)
    (opsA opsB : List (TOp V)) (hdis : ∀ d, d ∈ docsOf opsA → d ∉ docsOf opsB) (M : FHeap V)
    (hM : commitSecond H ((FTx.start H ia).run opsA) ((FTx.start H ib).run opsB) = some M) :
    let S := serialHeap H ia ib opsA opsB
    ObsEq M.view S.view ∧
    (∀ lo hi exlo exhi d, d ∈ applyInRange M.view lo hi exlo exhi ↔ d ∈ applyInRange S.view lo hi exlo exhi) ∧
    (∀ lo hi exlo exhi d, d ∈ applyNotInRange M.view lo hi exlo exhi ↔
      d ∈ applyNotInRange S.view lo hi exlo exhi) ∧
    (∀ qs d, d ∈ applyAny M.view qs ↔ d ∈ applyAny S.view qs) ∧
    (∀ qs d, d ∈ applyNotAny M.view qs ↔ d ∈ applyNotAny S.view qs) ∧
    (∀ q d, d ∈ applyEq M.view q ↔ d ∈ applyEq S.view q) ∧
    (∀ q d, d ∈ applyNotEq M.view q ↔ d ∈ applyNotEq S.view q) := by
  intro S
  have iM := (c19_field_conflict_or_serial H t hI ia ib hab hoa hob opsA opsB hdis M hM).inv
  have iS := (c19_field_serial_refines H t hI ia ib hab hoa hob opsA opsB).inv
  have hr : ∀ lo hi exlo exhi d, d ∈ applyInRange M.view lo hi exlo exhi ↔
      d ∈ applyInRange S.view lo hi exlo exhi := by
    intro lo hi exlo exhi d; rw [mem_applyInRange iM, mem_applyInRange iS]
  have ha : ∀ qs d, d ∈ searchOr M.view qs ↔ d ∈ searchOr S.view qs := by
    intro qs d; rw [mem_searchOr iM o, mem_searchOr iS o]
  refine ⟨obsEq_of_inv iM iS (fun _ => rfl), hr, ?_, ha, ?_, fun q => ha [q], ?_⟩
  · intro lo hi exlo exhi d
    unfold applyNotInRange
    rw [mem_negate iM, mem_negate iS]; exact mem_neg_congr _ _ _ (hr lo hi exlo exhi) d
  · intro qs d
    unfold applyNotAny applyAny
    rw [mem_negate iM, mem_negate iS]; exact mem_neg_congr _ _ _ (ha qs) d
  · intro q d
    unfold applyNotEq applyEq
    rw [mem_negate iM, mem_negate iS]; exact mem_neg_congr _ _ _ (ha [q]) d

end Hyp.CIdx
