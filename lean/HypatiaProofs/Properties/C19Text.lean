import HypatiaProofs.Lemmas.ConcurrencyTextMerge

/-!
# C19, text index at object level

`HypatiaModel/ConcurrencyText.lean` lays the text index (Okapi / cosine back end, with its
lexicon) out as persistent objects: the lexicon's two trees and `Length`, the `_wordinfo` tree whose
values are *either* a plain dict stored inside the bucket *or* a reference to an `IFBTree` object
(from `DICT_CUTOFF` members on), `_docwords`, `_docweight`, three `Length`s and `_not_indexed`.
The operations (`TextIndex.index_doc` = `reindex_doc`, `unindex_doc`, down to `_add_wordinfo`,
`_mass_add_wordinfo`, `_del_wordinfo`, `_new_wid`) log every location they read and every mutation
step; `commitSecondT` merges object by object with BTrees' rules.

Every operation of the unchanged code is a sequence of valid primitive steps
(`Lemmas/ConcurrencyTextOps.lean: reach_run`); what holds along such sequences holds for **all**
operation lists of a transaction (`TSound`: an unregistered object is unchanged; `LexTrack`: the
lexicon is untouched or the snapshot's first free word id has been taken).  From these, for all base
heaps, all operation lists and both back ends:

* (a) `c19_text_new_words_conflict` – both transactions add a word to the lexicon ⇒ ConflictError
  (both store `_words[k]` for the same `k`, the first free id of the snapshot: MVCC gives both the
  same `word_count`, so the `_p_deactivate()` in `sourceToWordIds` does not help);
* (b) `c19_text_dict_posting_conflict` – both change a posting that the snapshot holds as a dict ⇒
  ConflictError (the dict is the *value* of one bucket key);
* (d) `c19_text_cutoff_switch_conflict` – one replaces the dict by an `IFBTree`, the other updates
  the dict ⇒ ConflictError (same reason; nothing like D20 can happen because the replaced
  container has no identity of its own);
* (c) `c19_text_tree_posting_merges` – both change an `IFBTree` posting at different docids: the
  `_wordinfo` key (the same reference stored again by both) and the tree object merge, and the merged
  tree carries both changes.

The full conflict-or-serial theorem for the text index (all bases satisfying the object-level
C03 / C06 invariant, all operation lists on disjoint docids, both back ends, any `DICT_CUTOFF`) is
`c19_text_conflict_or_serial` in `Properties/C19TextFull.lean`.
-/
set_option linter.unusedSectionVars false
namespace Hyp.CIdx
open Hyp

variable {W Wt : Type} [DecidableEq W] [DecidableEq Wt]

/-- the part of the lexicon invariant (C15) that makes `_new_wid` return immediately: no id above
`word_count` is in use -/
structure LexOK (H : THeap W Wt) : Prop where
  nonneg : 0 ≤ H.lexCount
  below : ∀ i, (AMap.get H.words i).isSome → (i : Int) ≤ H.lexCount

/-- on such a snapshot the first new word gets `word_count + 1`, and that id is free -/
theorem c19_text_first_new_wid (H : THeap W Wt) (hl : LexOK H) :
    firstNewWid H = (H.lexCount + 1).toNat ∧ AMap.get H.words (firstNewWid H) = none := by
  have hfree : AMap.get H.words (H.lexCount + 1).toNat = none := by
    cases hg : AMap.get H.words (H.lexCount + 1).toNat with
    | none => rfl
    | some w =>
      have := hl.below (H.lexCount + 1).toNat (by rw [hg]; rfl)
      have := hl.nonneg
      omega
  have e : firstNewWid H = (H.lexCount + 1).toNat := by
    unfold firstNewWid TTx.newWid
    simp only
    show (TTx.skipLoop ((TTx.start H 0).lexChange 1) (H.words.length + 1)).heap.lexCount.toNat = _
    unfold TTx.skipLoop
    simp only
    have : (AMap.get (((TTx.start H 0).lexChange 1).rd .lexCount |>.rd
        (.words ((TTx.start H 0).lexChange 1).heap.lexCount.toNat)).heap.words
        (((TTx.start H 0).lexChange 1).rd .lexCount |>.rd
          (.words ((TTx.start H 0).lexChange 1).heap.lexCount.toNat)).heap.lexCount.toNat).isSome = false := by
      show (AMap.get H.words (H.lexCount + 1).toNat).isSome = false
      rw [hfree]; rfl
    rw [if_neg (by rw [this]; simp)]
    rfl
  exact ⟨e, by rw [e]; exact hfree⟩

/-- **(a)** Both transactions introduce a word the lexicon does not know: the second commit
conflicts.  Any base heap on which the first new word id is free (`c19_text_first_new_wid`), any
two operation lists, any docids. -/
theorem c19_text_new_words_conflict (c : TCfg Wt) (hc : c.Faithful) (H : THeap W Wt)
    (hfree : AMap.get H.words (firstNewWid H) = none) (ia ib : Nat) (opsA opsB : List (TOp (List W)))
    (hA : (TTx.run c (TTx.start H ia) opsA).heap.words ≠ H.words)
    (hB : (TTx.run c (TTx.start H ib) opsB).heap.words ≠ H.words) :
    commitSecondT H (TTx.run c (TTx.start H ia) opsA) (TTx.run c (TTx.start H ib) opsB) = none := by
  have tA := lextrack_of_reach (reach_run hc (TTx.start H ia) opsA)
  have tB := lextrack_of_reach (reach_run hc (TTx.start H ib) opsB)
  cases tA with
  | same a _ _ => exact absurd a hA
  | grew a1 a2 =>
    cases tB with
    | same b _ _ => exact absurd b hB
    | grew b1 b2 =>
      apply commitSecondT_none_of_words
      rw [a2, b2]
      apply mergeObj_none_of_both_changed (k := firstNewWid H)
      · rw [hfree]; intro e; rw [e] at a1; simp at a1
      · rw [hfree]; intro e; rw [e] at b1; simp at b1

/-- both transactions changed the same key of `_wordinfo` ⇒ ConflictError -/
theorem c19_text_wordinfo_key_conflict (c : TCfg Wt) (hc : c.Faithful) (H : THeap W Wt) (ia ib : Nat)
    (opsA opsB : List (TOp (List W))) (w : Nat)
    (hA : AMap.get (TTx.run c (TTx.start H ia) opsA).heap.wordinfo w ≠ AMap.get H.wordinfo w)
    (hB : AMap.get (TTx.run c (TTx.start H ib) opsB).heap.wordinfo w ≠ AMap.get H.wordinfo w) :
    commitSecondT H (TTx.run c (TTx.start H ia) opsA) (TTx.run c (TTx.start H ib) opsB) = none := by
  have sA := tsound_of_reach (reach_run hc (TTx.start H ia) opsA)
  have sB := tsound_of_reach (reach_run hc (TTx.start H ib) opsB)
  have dA : tdirty (TTx.run c (TTx.start H ia) opsA).writes .wordinfo = true := by
    cases h : tdirty (TTx.run c (TTx.start H ia) opsA).writes .wordinfo with
    | true => rfl
    | false => exact absurd (by rw [sA.wordinfo h]) hA
  have dB : tdirty (TTx.run c (TTx.start H ib) opsB).writes .wordinfo = true := by
    cases h : tdirty (TTx.run c (TTx.start H ib) opsB).writes .wordinfo with
    | true => rfl
    | false => exact absurd (by rw [sB.wordinfo h]) hB
  apply commitSecondT_none_of_wordinfo
  rw [dA, dB]
  exact mergeObj_none_of_both_changed hA hB

/-- a posting that differs from the dict the snapshot stores means the bucket key changed -/
theorem wordinfo_changed_of_posting {H h : THeap W Wt} {w : Nat} {m : AMap Int Wt}
    (h0 : AMap.get H.wordinfo w = some (.dict m)) {d : Int} (hd : AMap.get (h.posting w) d ≠ AMap.get m d) :
    AMap.get h.wordinfo w ≠ AMap.get H.wordinfo w := by
  intro e
  apply hd
  unfold THeap.posting
  rw [e, h0]

/-- **(b)** Both transactions change (add to, remove from, re-weight in) a posting the snapshot
holds as a plain dict: ConflictError – whatever else they do. -/
theorem c19_text_dict_posting_conflict (c : TCfg Wt) (hc : c.Faithful) (H : THeap W Wt) (ia ib : Nat)
    (opsA opsB : List (TOp (List W))) (w : Nat) (m : AMap Int Wt) (h0 : AMap.get H.wordinfo w = some (.dict m))
    (dA dB : Int)
    (hA : AMap.get ((TTx.run c (TTx.start H ia) opsA).heap.posting w) dA ≠ AMap.get m dA)
    (hB : AMap.get ((TTx.run c (TTx.start H ib) opsB).heap.posting w) dB ≠ AMap.get m dB) :
    commitSecondT H (TTx.run c (TTx.start H ia) opsA) (TTx.run c (TTx.start H ib) opsB) = none :=
  c19_text_wordinfo_key_conflict c hc H ia ib opsA opsB w
    (wordinfo_changed_of_posting h0 hA) (wordinfo_changed_of_posting h0 hB)

/-- `_add_wordinfo` on a dict with exactly `DICT_CUTOFF` members stores a reference to a new
`IFBTree` object under the word id -/
theorem addWordinfo_switches (c : TCfg Wt) (x : TTx W Wt) (w : Nat) (f : Wt) (d : Int) (m : AMap Int Wt)
    (h0 : AMap.get x.heap.wordinfo w = some (.dict m)) (hlen : m.length = c.cutoff) :
    AMap.get (TTx.addWordinfo c x w f d).heap.wordinfo w = some (.ref (x.me, x.next)) ∧
    AMap.get (TTx.addWordinfo c x w f d).heap.tree (x.me, x.next) =
      some (if AMap.get m d = some f then m else AMap.set m d f) := by
  unfold TTx.addWordinfo
  simp only
  have h0' : AMap.get (x.rd (.wi w)).heap.wordinfo w = some (.dict m) := h0
  rw [h0']
  simp only [TTx.addExisting, hlen, if_true]
  constructor
  · simp [TTx.wiSet, TTx.nt, AMap.get_set, TTx.alloc, TTx.rd]
  · unfold TTx.treePut
    have ht : ((x.rd (.wi w)).alloc m).1.treeOf ((x.rd (.wi w)).alloc m).2 = m := by
      simp [TTx.alloc, TTx.treeOf, TTx.nt, AMap.get_set]
    rw [ht]
    split
    · next e => simp [TTx.wiSet, TTx.nt, TTx.alloc, TTx.rd, AMap.get_set]
    · next e => simp [TTx.wiSet, TTx.nt, TTx.alloc, TTx.rd, AMap.get_set]

/-- **(d)** The cutoff switch: the first transaction replaced the dict of word `w` by an `IFBTree`
(its `_wordinfo[w]` is a reference), the second changed the dict: ConflictError. -/
theorem c19_text_cutoff_switch_conflict (c : TCfg Wt) (hc : c.Faithful) (H : THeap W Wt) (ia ib : Nat)
    (opsA opsB : List (TOp (List W))) (w : Nat) (m : AMap Int Wt) (h0 : AMap.get H.wordinfo w = some (.dict m))
    (o : Oid) (hA : AMap.get (TTx.run c (TTx.start H ia) opsA).heap.wordinfo w = some (.ref o)) (dB : Int)
    (hB : AMap.get ((TTx.run c (TTx.start H ib) opsB).heap.posting w) dB ≠ AMap.get m dB) :
    commitSecondT H (TTx.run c (TTx.start H ia) opsA) (TTx.run c (TTx.start H ib) opsB) = none ∧
    commitSecondT H (TTx.run c (TTx.start H ib) opsB) (TTx.run c (TTx.start H ia) opsA) = none := by
  have h1 : AMap.get (TTx.run c (TTx.start H ia) opsA).heap.wordinfo w ≠ AMap.get H.wordinfo w := by
    rw [hA, h0]; simp
  exact ⟨c19_text_wordinfo_key_conflict c hc H ia ib opsA opsB w h1 (wordinfo_changed_of_posting h0 hB),
         c19_text_wordinfo_key_conflict c hc H ib ia opsB opsA w (wordinfo_changed_of_posting h0 hB) h1⟩

/-- **(c)** Both transactions hold the `IFBTree` posting `o` of word `w` (the reference is stored
again by both – the bucket is registered, its key unchanged) and changed it at *different* docids
(`a` only inside `Da`, `b` only outside): the `_wordinfo` key merges to the same reference and the
tree object merges to the tree that carries both changes – `a`'s entries on `Da`, `b`'s elsewhere. -/
theorem c19_text_tree_posting_merges (o : Oid) (t0 ta tb : AMap Int Wt) (Da : Int → Prop)
    (ha : ∀ d, ¬ Da d → AMap.get ta d = AMap.get t0 d) (hb : ∀ d, Da d → AMap.get tb d = AMap.get t0 d)
    (hna : ta ≠ []) (hnb : tb ≠ []) (k0 : Int) (hk : (AMap.get ta k0).isSome) (hk' : Da k0) :
    mergeVal (some (PVal.ref (Wt := Wt) o)) (some (.ref o)) (some (.ref o)) = some (some (.ref o)) ∧
    ∃ t, mergeObj resolveMap true true t0 ta tb = some t ∧
      ∀ d, AMap.get t d = if AMap.get ta d = AMap.get t0 d then AMap.get tb d else AMap.get ta d := by
  refine ⟨by simp [mergeVal], ?_⟩
  have hd : ∀ k, AMap.get ta k = AMap.get t0 k ∨ AMap.get tb k = AMap.get t0 k := by
    intro k
    by_cases h : Da k
    · exact Or.inr (hb k h)
    · exact Or.inl (ha k h)
  obtain ⟨r, h1, h2⟩ := resolveMap_some_of_disjoint hna hnb hd hk (hb k0 hk')
  exact ⟨r, by simp [mergeObj, h1], h2⟩

/-! ## the theorems' hypotheses are met by concrete schedules (Okapi back end, `DICT_CUTOFF = 2`) -/

open TextFreq in
/-- base: documents 1, 2 hold the word `7`, document 3 the word `8`.  (a) `a` indexes a document with
the new word 9, `b` one with the new word 10: both take word id 3. -/
example :
    let c := okapiCfg 2
    let H := (TTx.run c (TTx.start ({} : THeap Nat SWt) 0)
      [.index 1 (some [7]), .index 2 (some [7]), .index 3 (some [8])]).heap
    let a := TTx.run c (TTx.start H 1) [.index 5 (some [9])]
    let b := TTx.run c (TTx.start H 2) [.index 6 (some [10])]
    firstNewWid H = 3 ∧ AMap.get H.words 3 = none ∧ a.heap.words ≠ H.words ∧ b.heap.words ≠ H.words ∧
    AMap.get a.heap.words 3 = some 9 ∧ AMap.get b.heap.words 3 = some 10 ∧ commitSecondT H a b = none := by
  decide

open TextFreq in
/-- (b) both add a document to the dict posting of word `8` (one member, below the cutoff);
(d) `a` adds a third document to the posting of word `7` (two members = `DICT_CUTOFF`: it becomes an
`IFBTree`), `b` removes document 2 from it -/
example :
    let c := okapiCfg 2
    let H := (TTx.run c (TTx.start ({} : THeap Nat SWt) 0)
      [.index 1 (some [7]), .index 2 (some [7]), .index 3 (some [8])]).heap
    (let a := TTx.run c (TTx.start H 1) [.index 5 (some [8])]
     let b := TTx.run c (TTx.start H 2) [.index 6 (some [8])]
     AMap.get H.wordinfo 2 = some (.dict [(3, (1, []))]) ∧ commitSecondT H a b = none) ∧
    (let a := TTx.run c (TTx.start H 1) [.index 5 (some [7])]
     let b := TTx.run c (TTx.start H 2) [.unindex 2]
     AMap.get a.heap.wordinfo 1 = some (.ref (1, 0)) ∧ AMap.get (b.heap.posting 1) 2 = none ∧
     commitSecondT H a b = none ∧ commitSecondT H b a = none) := by
  decide

open TextFreq in
/-- (c) the posting of word `7` is an `IFBTree` (three members); `a` adds document 5 and `b`
document 6, both texts consist of known words with tree postings: every object merges, and the
stored index is the one serial execution builds -/
example :
    let c := okapiCfg 2
    let H := (TTx.run c (TTx.start ({} : THeap Nat SWt) 0)
      [.index 1 (some [7]), .index 2 (some [7]), .index 3 (some [7, 7])]).heap
    let a := TTx.run c (TTx.start H 1) [.index 5 (some [7])]
    let b := TTx.run c (TTx.start H 2) [.index 6 (some [7, 7, 7]), .unindex 2]
    let S := (TTx.run c (TTx.start a.heap 2) [.index 6 (some [7, 7, 7]), .unindex 2]).heap
    AMap.get H.wordinfo 1 = some (.ref (0, 0)) ∧
    ∃ M, commitSecondT H a b = some M ∧
      (∀ d ∈ [1, 2, 3, 5, 6, 7], AMap.get (M.posting 1) d = AMap.get (S.posting 1) d) ∧
      AMap.get (M.posting 1) 5 = some (1, []) ∧ AMap.get (M.posting 1) 6 = some (3, []) ∧
      AMap.get (M.posting 1) 2 = none ∧
      M.indexedCount = S.indexedCount ∧ M.totalDocLen = S.totalDocLen ∧ M.wordCount = S.wordCount ∧
      (∀ d ∈ [1, 2, 3, 5, 6, 7], AMap.get M.docwords d = AMap.get S.docwords d) := by
  refine ⟨by decide, _, rfl, ?_⟩
  decide

end Hyp.CIdx
