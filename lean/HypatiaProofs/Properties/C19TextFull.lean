import HypatiaProofs.Lemmas.ConcurrencyTextMerged5

/-!
# C19, text index: conflict or serial, in full

For the text index at object level (`HypatiaModel/ConcurrencyText.lean`: lexicon, `_wordinfo` with
dict-valued and `IFBTree`-valued postings and the `DICT_CUTOFF` switch, `_docwords`, `_docweight`,
the `Length`s, `_not_indexed`; Okapi and cosine back end; any `DICT_CUTOFF`; any
`_get_frequencies` whose weight map has exactly the document's word ids as keys):

* `c19_text_txn_refines` – one transaction (also: the first committer, and serial execution): from
  a snapshot that satisfies the object-level refinement invariant `TOInv` (C03 / C06-text at
  object level: the lexicon's trees are mutually inverse with no id above `word_count` in use;
  `_docwords[d]` = the ids of the document's tokens; every posting – through its dict or through
  the `IFBTree` it refers to – maps exactly the documents containing the word to their frequency
  weights; `_docweight`, `word_count`, `indexed_count`, `_totaldoclen` are what they count;
  references resolve and are not shared, no posting is empty), any list of `index_doc` /
  `reindex_doc` / `unindex_doc` calls leaves a heap that satisfies it for the table the calls
  produce.
* **`c19_text_conflict_or_serial`** – two transactions start from such a state, run arbitrary
  operation lists on disjoint docids, the first commits, then the second: if the second commit does
  not raise ConflictError, the stored heap satisfies the invariant for the table of the serial
  execution `opsA ++ opsB`.
* `c19_text_merged_observes_serial` – hence the stored index and the serially built one cannot be
  told apart through the words of every document, the not-indexed set, the number of indexed
  documents and, for every word, the set of documents in its posting (= every search result of
  C03); the weights are the frequency weights of the same documents.

The proof goes through the decomposition of every operation into valid primitive steps (`Reach`),
the frame of a transaction along such steps (`TFrame`: foreign docid entries untouched, a snapshot
tree that lost its word has been emptied – the text index's analogue of D20 cannot arise because a
replaced *dict* has no identity, and an emptied tree makes `_p_resolveConflict` refuse), soundness
of the write log (`TSound`), the lexicon tracking (`LexTrack`: two creators of words always
conflict) and BTrees' merge rules.
-/
set_option linter.unusedSectionVars false
namespace Hyp.CIdx
open Hyp

variable {W Wt : Type} [DecidableEq W] [DecidableEq Wt]

/-! ### the document table of a list of calls -/

theorem get_stepTT_ne (T : TTable W) (op : TOp (List W)) (d : Int) (h : op.doc ≠ d) :
    AMap.get (stepTT T op) d = AMap.get T d := by
  cases op with
  | index d' v =>
    have h' : d' ≠ d := h
    show AMap.get (AMap.set T d' v) d = _; rw [AMap.get_set, if_neg h']
  | unindex d' =>
    have h' : d' ≠ d := h
    show AMap.get (AMap.erase T d') d = _; rw [AMap.get_erase, if_neg h']

theorem get_stepTT_congr (T T' : TTable W) (op : TOp (List W)) (d : Int) (h : AMap.get T d = AMap.get T' d) :
    AMap.get (stepTT T op) d = AMap.get (stepTT T' op) d := by
  cases op with
  | index d' v =>
    show AMap.get (AMap.set T d' v) d = AMap.get (AMap.set T' d' v) d
    rw [AMap.get_set, AMap.get_set, h]
  | unindex d' =>
    show AMap.get (AMap.erase T d') d = AMap.get (AMap.erase T' d') d
    rw [AMap.get_erase, AMap.get_erase, h]

theorem get_tableAfterT_out (ops : List (TOp (List W))) : ∀ (T : TTable W) (d : Int), d ∉ docsOf ops →
    AMap.get (tableAfterT T ops) d = AMap.get T d := by
  induction ops with
  | nil => intros; rfl
  | cons op ops ih =>
    intro T d hd
    simp only [docsOf, List.map_cons, List.mem_cons, not_or] at hd
    show AMap.get (tableAfterT (stepTT T op) ops) d = _
    rw [ih (stepTT T op) d (by simpa [docsOf] using hd.2)]
    exact get_stepTT_ne T op d (fun e => hd.1 e.symm)

theorem get_tableAfterT_congr (ops : List (TOp (List W))) : ∀ (T T' : TTable W) (d : Int),
    AMap.get T d = AMap.get T' d → AMap.get (tableAfterT T ops) d = AMap.get (tableAfterT T' ops) d := by
  induction ops with
  | nil => intro T T' d h; exact h
  | cons op ops ih =>
    intro T T' d h
    show AMap.get (tableAfterT (stepTT T op) ops) d = AMap.get (tableAfterT (stepTT T' op) ops) d
    exact ih _ _ d (get_stepTT_congr T T' op d h)

theorem wf_tableAfterT (ops : List (TOp (List W))) : ∀ (T : TTable W), AMap.WF T → AMap.WF (tableAfterT T ops) := by
  induction ops with
  | nil => intro T h; exact h
  | cons op ops ih =>
    intro T h
    show AMap.WF (tableAfterT (stepTT T op) ops)
    apply ih
    cases op with
    | index d v => exact AMap.WF_set h d v
    | unindex d => exact AMap.WF_erase h d

theorem tableAfterT_append (T : TTable W) (opsA opsB : List (TOp (List W))) :
    tableAfterT T (opsA ++ opsB) = tableAfterT (tableAfterT T opsA) opsB := by
  simp [tableAfterT, List.foldl_append]

/-! ### the theorems -/

/-- the empty text index satisfies the invariant -/
theorem c19_text_init (c : TCfg Wt) : TOInv c ({} : THeap W Wt) ([] : TTable W) := by
  refine ⟨⟨⟨⟨AMap.WF_nil, AMap.WF_nil, fun _ _ => by simp, by simp, fun _ h => by simp at h⟩,
    ⟨AMap.WF_nil, fun _ _ h => by simp at h, fun _ _ _ h => by simp at h, fun _ => ?_, fun _ h => by simp at h⟩,
    AMap.WF_nil, AMap.WF_nil, fun _ => by simp, fun _ _ => ?_, ?_, ?_⟩, fun _ => ?_⟩, AMap.WF_nil, List.nodup_nil,
    fun _ => by simp [tokensOfT], fun _ _ h => by simp [tokensOfT] at h, fun _ => by simp⟩
  · simp [THeap.posting, AMap.WF, AMap.keys]
  · simp [pt, THeap.posting]
  · simp [wcl]
  · simp
  · simp [sumW]

/-- the ownership side condition of a starting transaction -/
theorem ownT_start {H : THeap W Wt} {me : Nat} (hown : ∀ o, (AMap.get H.tree o).isSome → o.1 ≠ me) :
    OwnT (TTx.start H me) := fun o h e => absurd e (hown o h)

/-- **One transaction** refines the table: any list of calls, from any state satisfying the
invariant, for both back ends and every `DICT_CUTOFF`. -/
theorem c19_text_txn_refines (c : TCfg Wt) (hc : c.Faithful) (hf : FreqOK c) (H : THeap W Wt) (T : TTable W)
    (hI : TOInv c H T) (me : Nat) (hown : ∀ o, (AMap.get H.tree o).isSome → o.1 ≠ me)
    (ops : List (TOp (List W))) :
    TOInv c (TTx.run c (TTx.start H me) ops).heap (tableAfterT T ops) :=
  (trun_spec hc hf ops (x := TTx.start H me) hI (ownT_start hown)).inv

/-- every state a transaction `0` builds from the empty index (the driver's base states) satisfies
the hypotheses of the theorems below -/
theorem c19_text_reachable_base (c : TCfg Wt) (hc : c.Faithful) (hf : FreqOK c) (ops0 : List (TOp (List W))) :
    let H := (TTx.run c (TTx.start ({} : THeap W Wt) 0) ops0).heap
    TOInv c H (tableAfterT [] ops0) ∧ ∀ o, (AMap.get H.tree o).isSome → o.1 = 0 := by
  have hs : TStruct ({} : THeap W Wt) := (c19_text_init (W := W) c).core.struct
  refine ⟨c19_text_txn_refines c hc hf _ _ (c19_text_init c) 0 (fun _ h => by simp at h) ops0, ?_⟩
  intro o ho
  have hfr := tframe_run hc hs 0 (fun _ h => by simp at h) ops0
  rcases hfr.own o ho with h | h
  · simp at h
  · exact h.1

/-- **Conflict or serial – text index.**  `a` and `b` start from the committed state `H`
(invariant `TOInv c H T`), run `opsA` / `opsB` on disjoint docids; `a` commits, then `b`.  If the
commit does not raise ConflictError (`commitSecondT … = some M`), the stored heap `M` satisfies the
refinement invariant for the table of the serial execution `opsA ++ opsB`. -/
theorem c19_text_conflict_or_serial (c : TCfg Wt) (hc : c.Faithful) (hf : FreqOK c) (H : THeap W Wt) (T : TTable W)
    (hI : TOInv c H T) (ia ib : Nat) (hab : ia ≠ ib)
    (hoa : ∀ o, (AMap.get H.tree o).isSome → o.1 ≠ ia) (hob : ∀ o, (AMap.get H.tree o).isSome → o.1 ≠ ib)
    (opsA opsB : List (TOp (List W))) (hdis : ∀ d, d ∈ docsOf opsA → d ∉ docsOf opsB) (M : THeap W Wt)
    (hM : commitSecondT H (TTx.run c (TTx.start H ia) opsA) (TTx.run c (TTx.start H ib) opsB) = some M) :
    TOInv c M (tableAfterT T (opsA ++ opsB)) := by
  have sA := trun_spec hc hf opsA (x := TTx.start H ia) hI (ownT_start hoa)
  have sB := trun_spec hc hf opsB (x := TTx.start H ib) hI (ownT_start hob)
  have fA := tframe_run hc hI.core.struct ia hoa opsA
  have fB := tframe_run hc hI.core.struct ib hob opsB
  have meA : (TTx.run c (TTx.start H ia) opsA).me = ia := fA.meq
  have meB : (TTx.run c (TTx.start H ib) opsB).me = ib := fB.meq
  have cast : ∀ {D : Int → Prop} {x : TTx W Wt} (m : Nat), m = x.me → TFrame H D m x → TFrame H D x.me x :=
    fun m e h => e ▸ h
  have ctx : TCtx c H T (TTx.run c (TTx.start H ia) opsA) (TTx.run c (TTx.start H ib) opsB)
      (tableAfterT T opsA) (tableAfterT T opsB) (docsOf opsA) (docsOf opsB) :=
    ⟨hI, sA.inv, sB.inv, cast ia meA.symm fA, cast ib meB.symm fB, tsound_of_reach (reach_run hc _ opsA),
     tsound_of_reach (reach_run hc _ opsB), lextrack_of_reach (reach_run hc _ opsA),
     lextrack_of_reach (reach_run hc _ opsB), hdis, by rw [meA, meB]; exact hab,
     by rw [meA]; exact hoa, by rw [meB]; exact hob⟩
  rw [tableAfterT_append]
  apply tmerged_inv hf ctx (mergedSpec_of_commit hM) (wf_tableAfterT _ _ (wf_tableAfterT _ _ hI.wfT))
  intro d
  by_cases hd : d ∈ docsOf opsB
  · simp only [hd, if_true]
    exact get_tableAfterT_congr opsB _ _ d (get_tableAfterT_out opsA T d (fun e => hdis d e hd))
  · simp only [hd, if_false]
    exact get_tableAfterT_out opsB _ d hd

/-- the heap of the serial execution: `b`'s calls run in a new transaction on `a`'s committed heap -/
def serialHeapT (c : TCfg Wt) (H : THeap W Wt) (ia ib : Nat) (opsA opsB : List (TOp (List W))) : THeap W Wt :=
  (TTx.run c (TTx.start (TTx.run c (TTx.start H ia) opsA).heap ib) opsB).heap

theorem c19_text_serial_refines (c : TCfg Wt) (hc : c.Faithful) (hf : FreqOK c) (H : THeap W Wt) (T : TTable W)
    (hI : TOInv c H T) (ia ib : Nat) (hab : ia ≠ ib)
    (hoa : ∀ o, (AMap.get H.tree o).isSome → o.1 ≠ ia) (hob : ∀ o, (AMap.get H.tree o).isSome → o.1 ≠ ib)
    (opsA opsB : List (TOp (List W))) :
    TOInv c (serialHeapT c H ia ib opsA opsB) (tableAfterT T (opsA ++ opsB)) := by
  have sA := trun_spec hc hf opsA (x := TTx.start H ia) hI (ownT_start hoa)
  have fA := tframe_run hc hI.core.struct ia hoa opsA
  rw [tableAfterT_append]
  apply c19_text_txn_refines c hc hf _ _ sA.inv ib
  intro o ho
  rcases fA.own o ho with h | h
  · exact hob o h
  · exact fun e => hab (h.1.symm.trans e)

/-! ### what the invariant says about the observable index -/

/-- the words of document `d` as `document_repr` assembles them (`none`: not indexed) -/
def docWords (h : THeap W Wt) (d : Int) : Option (List (Option W)) :=
  (AMap.get h.docwords d).map (fun ids => ids.map (fun i => AMap.get h.words i))

/-- the weight of document `d` in the posting of *word* `w` (what a search for `w` iterates over) -/
def wordPosting (h : THeap W Wt) (w : W) (d : Int) : Option Wt :=
  match AMap.get h.wids w with
  | some i => pt h i d
  | none => none

/-- **the observable index is the table**: document words, not-indexed set, search results, the
number of indexed documents and Okapi's total document length are functions of the document table
alone -/
theorem c19_text_observable (c : TCfg Wt) (hf : FreqOK c) (h : THeap W Wt) (T : TTable W) (hI : TOInv c h T) :
    (∀ d, docWords h d = (tokensOfT T d).map (fun toks => toks.map some)) ∧
    (∀ d, d ∈ h.ni ↔ AMap.get T d = some none) ∧
    (∀ w d, (wordPosting h w d).isSome ↔ ∃ toks, tokensOfT T d = some toks ∧ w ∈ toks) ∧
    h.indexedCount = ((AMap.keys T).filter (fun d => (tokensOfT T d).isSome)).length ∧
    (c.okapi = true → h.totalDocLen =
      ((AMap.keys T).map (fun d => (((tokensOfT T d).map List.length).getD 0 : Int))).sum) := by
  refine ⟨?_, hI.ni, ?_, ?_, ?_⟩
  rotate_left 3
  · -- Okapi: the total document length is the number of tokens of the indexed documents
    intro hok
    rw [hI.core.tdl hok]
    unfold sumW
    have hsub : ∀ d ∈ AMap.keys h.docweight, d ∈ AMap.keys T := by
      intro d hd
      rw [AMap.mem_keys_iff, hI.core.docweight d, hI.docwords d] at hd
      rw [AMap.mem_keys_iff]
      unfold tokensOfT at hd
      cases hg : AMap.get T d with
      | none => rw [hg] at hd; simp at hd
      | some v => rfl
    rw [sum_eq_universe c.wtInt hI.core.wfDw hI.wfT hsub]
    congr 1
    apply List.map_congr_left
    intro d _
    rw [hI.core.docweight d, hI.docwords d]
    cases tokensOfT T d with
    | none => rfl
    | some toks =>
      simp only [Option.map_some, Option.getD_some]
      rw [hf.len hok]
      unfold idsOf
      simp
  · intro d
    unfold docWords
    rw [hI.docwords d]
    cases htk : tokensOfT T d with
    | none => rfl
    | some toks =>
      simp only [Option.map_some]
      congr 1
      unfold idsOf
      rw [List.map_map]
      apply List.map_congr_left
      intro w hw
      cases e : AMap.get h.wids w with
      | none => have := hI.known d toks htk w hw; rw [e] at this; simp at this
      | some i => simp only [Function.comp, e, Option.getD_some]; exact (hI.core.lex.inverse w i).mp e
  · intro w d
    unfold wordPosting
    constructor
    · intro hs
      cases e : AMap.get h.wids w with
      | none => rw [e] at hs; simp at hs
      | some i =>
        rw [e] at hs
        simp only at hs
        rw [hI.core.postings i d, hI.docwords d] at hs
        cases htk : tokensOfT T d with
        | none => rw [htk] at hs; simp at hs
        | some toks =>
          rw [htk] at hs
          simp only [Option.map_some, Option.bind_some] at hs
          have hin := (hf.keys _ i).mp hs
          unfold idsOf at hin
          obtain ⟨w', hw', e'⟩ := List.mem_map.mp hin
          refine ⟨toks, rfl, ?_⟩
          cases e2 : AMap.get h.wids w' with
          | none => have := hI.known d toks htk w' hw'; rw [e2] at this; simp at this
          | some i' =>
            rw [e2] at e'
            simp only [Option.getD_some] at e'
            subst e'
            have h1 := (hI.core.lex.inverse w i').mp e
            have h2 := (hI.core.lex.inverse w' i').mp e2
            rw [h1] at h2
            rw [Option.some.inj h2]; exact hw'
    · rintro ⟨toks, htk, hw⟩
      cases e : AMap.get h.wids w with
      | none => have := hI.known d toks htk w hw; rw [e] at this; simp at this
      | some i =>
        simp only
        rw [hI.core.postings i d, hI.docwords d, htk]
        simp only [Option.map_some, Option.bind_some]
        apply (hf.keys _ i).mpr
        unfold idsOf
        exact List.mem_map.mpr ⟨w, hw, by rw [e]; rfl⟩
  · rw [hI.core.ic]
    have hperm : (AMap.keys h.docwords).Perm ((AMap.keys T).filter (fun d => (tokensOfT T d).isSome)) := by
      apply (List.perm_ext_iff_of_nodup hI.core.wfD (hI.wfT.filter _)).mpr
      intro d
      rw [List.mem_filter, AMap.mem_keys_iff, AMap.mem_keys_iff, hI.docwords d]
      constructor
      · intro hs
        cases htk : tokensOfT T d with
        | none => rw [htk] at hs; simp at hs
        | some toks =>
          refine ⟨?_, rfl⟩
          unfold tokensOfT at htk
          cases hg : AMap.get T d with
          | none => rw [hg] at htk; simp at htk
          | some v => rfl
      · intro hs
        cases htk : tokensOfT T d with
        | none => rw [htk] at hs; simp at hs
        | some toks => rfl
    rw [← AMap.length_keys, hperm.length_eq]

/-- **merged = serial**, through everything the index lets an observer see of its documents: the
stored index and the serially built one agree on the words of every document, the not-indexed
set, the documents found for every word and the number of indexed documents -/
theorem c19_text_merged_observes_serial (c : TCfg Wt) (hc : c.Faithful) (hf : FreqOK c) (H : THeap W Wt)
    (T : TTable W) (hI : TOInv c H T) (ia ib : Nat) (hab : ia ≠ ib)
    (hoa : ∀ o, (AMap.get H.tree o).isSome → o.1 ≠ ia) (hob : ∀ o, (AMap.get H.tree o).isSome → o.1 ≠ ib)
    (opsA opsB : List (TOp (List W))) (hdis : ∀ d, d ∈ docsOf opsA → d ∉ docsOf opsB) (M : THeap W Wt)
    (hM : commitSecondT H (TTx.run c (TTx.start H ia) opsA) (TTx.run c (TTx.start H ib) opsB) = some M) :
    let S := serialHeapT c H ia ib opsA opsB
    (∀ d, docWords M d = docWords S d) ∧ (∀ d, d ∈ M.ni ↔ d ∈ S.ni) ∧
    (∀ w d, (wordPosting M w d).isSome ↔ (wordPosting S w d).isSome) ∧ M.indexedCount = S.indexedCount ∧
    (c.okapi = true → M.totalDocLen = S.totalDocLen) := by
  intro S
  have iM := c19_text_conflict_or_serial c hc hf H T hI ia ib hab hoa hob opsA opsB hdis M hM
  have iS := c19_text_serial_refines c hc hf H T hI ia ib hab hoa hob opsA opsB
  obtain ⟨m1, m2, m3, m4, m5⟩ := c19_text_observable c hf M _ iM
  obtain ⟨s1, s2, s3, s4, s5⟩ := c19_text_observable c hf S _ iS
  exact ⟨fun d => (m1 d).trans (s1 d).symm, fun d => (m2 d).trans (s2 d).symm,
    fun w d => (m3 w d).trans (s3 w d).symm, m4.trans s4.symm, fun hok => (m5 hok).trans (s5 hok).symm⟩

end Hyp.CIdx

/-! ### the two back ends' `_get_frequencies` satisfy `FreqOK`; the theorems are not vacuous -/

namespace Hyp.CIdx
open Hyp Hyp.CIdx.TextFreq

theorem bump_spec : ∀ (m : AMap Nat Int) (w : Nat), AMap.WF m →
    AMap.WF (bump m w) ∧ ∀ j, (AMap.get (bump m w) j).isSome ↔ ((AMap.get m j).isSome ∨ j = w)
  | [], w, _ => ⟨by simp [bump, AMap.WF, AMap.keys], fun j => by
      simp only [bump, AMap.get_cons]
      by_cases e : w = j
      · simp [e]
      · have : ¬ j = w := fun h => e h.symm
        simp [e, this]⟩
  | (k, n) :: rest, w, hwf => by
    have hwf' : AMap.WF rest := by
      unfold AMap.WF AMap.keys at hwf ⊢
      simp only [List.map_cons, List.nodup_cons] at hwf; exact hwf.2
    have hk : AMap.get rest k = none := by
      unfold AMap.WF AMap.keys at hwf
      simp only [List.map_cons, List.nodup_cons] at hwf
      exact (AMap.not_mem_keys_iff rest k).mp hwf.1
    unfold bump
    by_cases e : k = w
    · subst e
      rw [if_pos rfl]
      refine ⟨?_, fun j => ?_⟩
      · unfold AMap.WF AMap.keys at hwf ⊢; exact hwf
      · simp only [AMap.get_cons]
        by_cases e2 : k = j
        · simp [e2]
        · have : ¬ j = k := fun h => e2 h.symm
          simp [e2, this]
    · rw [if_neg e]
      obtain ⟨ih1, ih2⟩ := bump_spec rest w hwf'
      refine ⟨?_, fun j => ?_⟩
      · unfold AMap.WF AMap.keys
        simp only [List.map_cons, List.nodup_cons]
        refine ⟨?_, ih1⟩
        intro hmem
        have : (AMap.get (bump rest w) k).isSome := (AMap.mem_keys_iff _ k).mp hmem
        rcases (ih2 k).mp this with h | h
        · rw [hk] at h; simp at h
        · exact e h
      · simp only [AMap.get_cons]
        by_cases e2 : k = j
        · simp [e2]
        · simp only [e2, if_false]; exact ih2 j

theorem counts_spec (wids : List Nat) :
    AMap.WF (counts wids) ∧ ∀ j, (AMap.get (counts wids) j).isSome ↔ j ∈ wids := by
  unfold counts
  suffices h : ∀ (l : List Nat) (m : AMap Nat Int), AMap.WF m →
      AMap.WF (l.foldl bump m) ∧ ∀ j, (AMap.get (l.foldl bump m) j).isSome ↔ ((AMap.get m j).isSome ∨ j ∈ l) by
    obtain ⟨a, b⟩ := h wids [] AMap.WF_nil
    exact ⟨a, fun j => by rw [b j]; simp⟩
  intro l
  induction l with
  | nil => intro m hm; exact ⟨hm, fun j => by simp⟩
  | cons w ws ih =>
    intro m hm
    obtain ⟨b1, b2⟩ := bump_spec m w hm
    obtain ⟨i1, i2⟩ := ih (bump m w) b1
    refine ⟨i1, fun j => ?_⟩
    rw [List.foldl_cons, i2 j, b2 j]
    simp only [List.mem_cons]
    constructor
    · rintro ((h | h) | h)
      · exact Or.inl h
      · exact Or.inr (Or.inl h)
      · exact Or.inr (Or.inr h)
    · rintro (h | h | h)
      · exact Or.inl (Or.inl h)
      · exact Or.inl (Or.inr h)
      · exact Or.inr h

/-- Okapi's and the cosine index's `_get_frequencies` meet the hypothesis of the theorems -/
theorem c19_text_freq_ok (cutoff : Nat) : FreqOK (okapiCfg cutoff) ∧ FreqOK (cosineCfg cutoff) := by
  constructor
  · refine ⟨fun ws => ?_, fun ws j => ?_, fun _ ws => rfl⟩
    · show AMap.WF ((counts ws).map (fun e => (e.1, ((e.2, []) : SWt))))
      unfold AMap.WF
      rw [keys_mapVal (fun n : Int => ((n, []) : SWt)) (counts ws)]
      exact (counts_spec ws).1
    · show (AMap.get ((counts ws).map (fun e => (e.1, ((e.2, []) : SWt)))) j).isSome ↔ _
      rw [get_mapVal (fun n : Int => ((n, []) : SWt)) (counts ws) j, ← (counts_spec ws).2 j]
      cases AMap.get (counts ws) j <;> simp
  · refine ⟨fun ws => ?_, fun ws j => ?_, fun h ws => by cases h⟩
    · show AMap.WF ((counts ws).map (fun e => (e.1, ((e.2, (counts ws).map (·.2)) : SWt))))
      unfold AMap.WF
      rw [keys_mapVal (fun n : Int => ((n, (counts ws).map (·.2)) : SWt)) (counts ws)]
      exact (counts_spec ws).1
    · show (AMap.get ((counts ws).map (fun e => (e.1, ((e.2, (counts ws).map (·.2)) : SWt)))) j).isSome ↔ _
      rw [get_mapVal (fun n : Int => ((n, (counts ws).map (·.2)) : SWt)) (counts ws) j, ← (counts_spec ws).2 j]
      cases AMap.get (counts ws) j <;> simp

/-- non-vacuity of `c19_text_conflict_or_serial`: a base with an `IFBTree` posting
(`DICT_CUTOFF = 2`), two transactions that both write that tree (different docids), one of them
also re-indexes a document and un-indexes another: every object merges -/
example :
    let c := okapiCfg 2
    let H := (TTx.run c (TTx.start ({} : THeap Nat SWt) 0)
      [.index 1 (some [7]), .index 2 (some [7]), .index 3 (some [7, 7]), .index 4 (some [7])]).heap
    let a := TTx.run c (TTx.start H 1) [.index 5 (some [7]), .index 3 (some [7])]
    let b := TTx.run c (TTx.start H 2) [.index 6 (some [7, 7, 7]), .unindex 2]
    AMap.keys H.tree = [(0, 0)] ∧ (commitSecondT H a b).isSome = true := by
  decide

end Hyp.CIdx
