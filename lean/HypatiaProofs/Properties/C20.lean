import HypatiaProofs.Lemmas.RankTree
import HypatiaProofs.Lemmas.RankCosine
import HypatiaProofs.Lemmas.RankSort

/-!
# C20  Text ranking: normalised scores, relevance sort and score bound

Property statements only.  `Score.apply` models `TextIndex.apply` after parsing (execute the
tree with C14's `exec`, divide by `query_weight(tree.terms())`), `TextSort.sort` models
`TextIndex.sort`.  Real-number scores; the lexicon (`lex`) and the history are arbitrary.

Proved: normalisation for every tree and both back ends; every score of a glob-free tree is a
sum of docstring summands over a sub-list of the tree's word ids (`c20_tree_score`); the `(0, 1]`
bound for every glob-free tree on the Okapi back end, and on the cosine back end when the word
ids of the tree's (non-NOT) terms are pairwise distinct (Cauchy–Schwarz); a proved counterexample
showing *distinct* cannot be dropped; the sort contract.
-/
set_option linter.unusedSectionVars false
set_option linter.unusedSimpArgs false
namespace Hyp.C20
open Hyp Hyp.Score Hyp.SetOps Hyp.QP

-- Every theorem below holds for ANY BM25 parameters (`Score.Bm25`: the `K1`, `B` the scoring loop reads, the
-- `K1` `query_weight` reads – class attributes of `OkapiIndex` that a subclass or an instance may override);
-- the two Okapi bound theorems need them in the ranges of `Bm25Ok`: `0 ≤ K1`, `0 ≤ B ≤ 1`, and `query_weight`
-- reading a `K1` not below the loop's.  `c20_okapi_bound_default` is the instance `K1 = 1.2`, `B = 0.75`.
variable [Bm25 ℝ]

/-- **Normalisation.** Whatever the tree and the back end: if executing the tree gives the raw
scores `raw`, `TextIndex.apply` returns the same documents with `raw / query_weight(terms)`
(`raw` itself if that weight is 0). -/
theorem c20_apply_normalised (k : Kind) (s : State) (lex : Lex) (t : Tree) (raw : WMap ℝ)
    (h : exec (textIndex k s lex) t = .ok (some (.ok raw))) :
    ∃ r, Score.apply k s lex t = .ok (some r) ∧
      ∀ d, AMap.get r d = (AMap.get raw d).map (fun v =>
        v / (if queryWeight k s ((terms t).flatMap lex.termWids) = (0 : ℝ) then 1
             else queryWeight k s ((terms t).flatMap lex.termWids))) := by
  unfold Score.apply
  rw [h]
  simp only
  by_cases he : raw.isEmpty = true
  · rw [if_pos he]
    have : raw = [] := List.isEmpty_iff.mp he
    subst this
    exact ⟨[], rfl, fun d => rfl⟩
  · rw [if_neg he]
    refine ⟨_, rfl, fun d => ?_⟩
    rw [get_map_val]
    cases AMap.get raw d with
    | none => rfl
    | some v =>
      simp only [Option.map_some, Scalar.beq_real, Scalar.nat_real, Nat.cast_zero, Nat.cast_one]

/-- a query that matches "everything" (`None`) and a failing execution are passed on -/
theorem c20_apply_passthrough (k : Kind) (s : State) (lex : Lex) (t : Tree) :
    (exec (textIndex k s lex : Index (Res ℝ)) t = .ok none →
      (Score.apply k s lex t : Except ApplyErr (Option (WMap ℝ))) = .ok none) ∧
    (∀ e, exec (textIndex k s lex : Index (Res ℝ)) t = .error e →
      (Score.apply k s lex t : Except ApplyErr (Option (WMap ℝ))) = .error .queryError) := by
  constructor
  · intro h; unfold Score.apply; rw [h]
  · intro e h; unfold Score.apply; rw [h]

section okapiBound
variable [Bm25Ok]

/-- **Okapi, raw scores**: for every history, lexicon and glob-free tree, and all parameters with
`0 ≤ k1 ≤ kq`, `0 ≤ b ≤ 1`, every returned document has `0 < score ≤ query_weight(tree.terms())` –
the docstring's "upper bound on document scores". -/
theorem c20_okapi_raw_bound (ops : List Op) (lex : Lex) (t : Tree) (hg : globFree t = true)
    (r : Res ℝ) (h : exec (textIndex .okapi (run ops) lex) t = .ok (some r)) :
    ∃ raw, r = .ok raw ∧ ∀ d v, AMap.get raw d = some v →
      0 < v ∧ v ≤ queryWeight .okapi (run ops) ((terms t).flatMap lex.termWids) := by
  obtain ⟨m, hm, hb⟩ := pt_all (run ops) lex (inv_run ops) t hg r h
  refine ⟨m, hm, fun d v hv => ?_⟩
  rw [queryWeight_spec]
  exact hb d v hv

/-- **Okapi, normalised scores lie in (0, 1]** for every glob-free query. -/
theorem c20_okapi_bound (ops : List Op) (lex : Lex) (t : Tree) (hg : globFree t = true)
    (r : WMap ℝ) (h : Score.apply .okapi (run ops) lex t = .ok (some r)) :
    ∀ d v, AMap.get r d = some v → 0 < v ∧ v ≤ 1 := by
  intro d v hv
  cases he : exec (textIndex .okapi (run ops) lex : Index (Res ℝ)) t with
  | error e => rw [(c20_apply_passthrough .okapi (run ops) lex t).2 e he] at h; cases h
  | ok o =>
    cases o with
    | none => rw [(c20_apply_passthrough .okapi (run ops) lex t).1 he] at h; cases h
    | some res =>
      obtain ⟨raw, rfl, hb⟩ := c20_okapi_raw_bound ops lex t hg res he
      obtain ⟨r', hr', hg'⟩ := c20_apply_normalised .okapi (run ops) lex t raw he
      rw [hr'] at h; injection h with h; injection h with h; subst h
      rw [hg' d] at hv
      cases hraw : AMap.get raw d with
      | none => rw [hraw] at hv; cases hv
      | some x =>
        rw [hraw] at hv
        simp only [Option.map_some, Option.some.injEq] at hv
        obtain ⟨hx1, hx2⟩ := hb d x hraw
        have hq : (0 : ℝ) < queryWeight .okapi (run ops) ((terms t).flatMap lex.termWids) := lt_of_lt_of_le hx1 hx2
        rw [if_neg (ne_of_gt hq)] at hv
        subst hv
        exact ⟨div_pos hx1 hq, (div_le_one hq).mpr hx2⟩

end okapiBound

omit [Bm25 ℝ] in
/-- the default parameters `K1 = 1.2`, `B = 0.75` are in range -/
instance bm25Ok_default : @Bm25Ok Bm25.default :=
  @Bm25Ok.mk Bm25.default
    (by simp only [Bm25.default_k1, Scalar.nat_real]; norm_num)
    (by simp only [Bm25.default_b, Scalar.nat_real]; norm_num)
    (by simp only [Bm25.default_b, Scalar.nat_real]; norm_num)
    (by simp only [Bm25.default_k1, Bm25.default_kq]; exact le_refl _)

/-- a tuned index (`K1 = 2`, `B = 0.5`: pure-Python loop, both read from the same attributes) is in range, and so is
the compiled loop (constants 1.2 / 0.75) under an index whose `K1` attribute was raised to 2 -/
example : @Bm25Ok ⟨2, 0.5, 2⟩ := @Bm25Ok.mk ⟨2, 0.5, 2⟩ (by norm_num) (by norm_num) (by norm_num) (le_refl _)
example : @Bm25Ok ⟨1.2, 0.75, 2⟩ :=
  @Bm25Ok.mk ⟨1.2, 0.75, 2⟩ (by norm_num) (by norm_num) (by norm_num) (by norm_num)

omit [Bm25 ℝ] in
/-- **Okapi with the default parameters**: normalised scores of glob-free queries lie in (0, 1]. -/
theorem c20_okapi_bound_default (ops : List Op) (lex : Lex) (t : Tree) (hg : globFree t = true)
    (r : WMap ℝ) (h : @Score.apply ℝ _ Bm25.default .okapi (run ops) lex t = .ok (some r)) :
    ∀ d v, AMap.get r d = some v → 0 < v ∧ v ≤ 1 :=
  @c20_okapi_bound Bm25.default bm25Ok_default ops lex t hg r h

/-- **What a tree's score is** (both back ends): for a glob-free tree every returned document's
raw score is `Σ_{x ∈ S} summand(x)` of the C08 formula, for a non-empty sub-list `S` of the word ids
of the tree's terms (`tree.terms()` through the lexicon, NOT subtrees excluded, repeats kept), all
of which occur in the document. -/
theorem c20_tree_score (k : Kind) (ops : List Op) (lex : Lex) (t : Tree) (hg : globFree t = true)
    (r : Res ℝ) (h : exec (textIndex k (run ops) lex) t = .ok (some r)) :
    ∃ raw, r = .ok raw ∧ ∀ d v, AMap.get raw d = some v →
      ∃ ws S, AMap.get (ScoreSpec.tableOf ops) d = some ws ∧ S ≠ [] ∧
        S.Sublist ((terms t).flatMap lex.termWids) ∧ (∀ x ∈ S, x ∈ ws) ∧
        v = (S.map (specTerm k (ScoreSpec.tableOf ops) ws)).sum := by
  obtain ⟨m, hm, hr⟩ := rt_all k (run ops) lex (inv_run ops) t hg r h
  refine ⟨m, hm, fun d v hv => ?_⟩
  have := hr d v hv
  rw [table_run] at this
  exact this

/-- **Cosine, raw scores**: glob-free tree whose terms' word ids are pairwise distinct:
`0 < score ≤ query_weight` (Cauchy–Schwarz against the document's unit weight vector). -/
theorem c20_cosine_raw_bound (ops : List Op) (lex : Lex) (t : Tree) (hg : globFree t = true)
    (hd : ((terms t).flatMap lex.termWids).Nodup)
    (r : Res ℝ) (h : exec (textIndex .cosine (run ops) lex) t = .ok (some r)) :
    ∃ raw, r = .ok raw ∧ ∀ d v, AMap.get raw d = some v →
      0 < v ∧ v ≤ queryWeight .cosine (run ops) ((terms t).flatMap lex.termWids) := by
  obtain ⟨raw, hraw, hr⟩ := c20_tree_score .cosine ops lex t hg r h
  refine ⟨raw, hraw, fun d v hv => ?_⟩
  obtain ⟨ws, S, h1, h2, h3, h4, h5⟩ := hr d v hv
  rw [queryWeight_spec, table_run, h5]
  exact cosine_sum_bounds _ d ws h1 S _ h2 h3 hd h4

/-- **Cosine, normalised scores lie in (0, 1]** for glob-free queries with distinct terms. -/
theorem c20_cosine_bound (ops : List Op) (lex : Lex) (t : Tree) (hg : globFree t = true)
    (hd : ((terms t).flatMap lex.termWids).Nodup)
    (r : WMap ℝ) (h : Score.apply .cosine (run ops) lex t = .ok (some r)) :
    ∀ d v, AMap.get r d = some v → 0 < v ∧ v ≤ 1 := by
  intro d v hv
  cases he : exec (textIndex .cosine (run ops) lex : Index (Res ℝ)) t with
  | error e => rw [(c20_apply_passthrough .cosine (run ops) lex t).2 e he] at h; cases h
  | ok o =>
    cases o with
    | none => rw [(c20_apply_passthrough .cosine (run ops) lex t).1 he] at h; cases h
    | some res =>
      obtain ⟨raw, rfl, hb⟩ := c20_cosine_raw_bound ops lex t hg hd res he
      obtain ⟨r', hr', hg'⟩ := c20_apply_normalised .cosine (run ops) lex t raw he
      rw [hr'] at h; injection h with h; injection h with h; subst h
      rw [hg' d] at hv
      cases hraw : AMap.get raw d with
      | none => rw [hraw] at hv; cases hv
      | some x =>
        rw [hraw] at hv
        simp only [Option.map_some, Option.some.injEq] at hv
        obtain ⟨hx1, hx2⟩ := hb d x hraw
        have hq : (0 : ℝ) < queryWeight .cosine (run ops) ((terms t).flatMap lex.termWids) := lt_of_lt_of_le hx1 hx2
        rw [if_neg (ne_of_gt hq)] at hv
        subst hv
        exact ⟨div_pos hx1 hq, (div_le_one hq).mpr hx2⟩

/-- **Why "distinct terms" for cosine**: one document `[5]`, the query term `5` twice: the score
is `2·ln 2`, the query weight `√2·ln 2`. -/
theorem c20_cosine_repeated_term :
    ∃ v : ℝ, ScoreSpec.score .cosine [(1, [5])] [5, 5] 1 = some v ∧
      ScoreSpec.queryWeight .cosine [(1, [5])] [5, 5] < v := by
  have hl : (0 : ℝ) < Real.log 2 := Real.log_pos (by norm_num)
  have e : List.eraseDupsBy (fun x1 x2 : Nat => x1 == x2) [5] = [5] := by decide
  refine ⟨2 * Real.log 2, ?_, ?_⟩
  · simp [ScoreSpec.score, ScoreSpec.cosineScore, AMap.get, ScoreSpec.matched, SetSpec.sum1, ScoreSpec.wdt,
      ScoreSpec.bigW, ScoreSpec.idf, ScoreSpec.N, ScoreSpec.df, List.eraseDups, e]
    norm_num
    ring
  · simp [ScoreSpec.queryWeight, ScoreSpec.idf, ScoreSpec.N, ScoreSpec.df]
    norm_num
    rw [show Real.log 2 * Real.log 2 + Real.log 2 * Real.log 2 = 2 * (Real.log 2) ^ 2 by ring,
      Real.sqrt_mul (by norm_num), Real.sqrt_sq (le_of_lt hl)]
    have : Real.sqrt 2 < 2 := by
      rw [Real.sqrt_lt' (by norm_num)]; norm_num
    nlinarith

/-! ### TextIndex.sort -/
open Hyp.TextSort

/-- **Sorting a weighted result**: the ids come out as a prefix (see `c20_sort_limit`) of a list that
is a permutation of the result's docids, ordered by descending score – ascending when `reverse` –
(equal scores: by docid, as tuples compare). -/
theorem c20_sort_weighted (m : WMap ℝ) (hne : m ≠ []) (reverse : Bool) (limit : Option Int) :
    ∃ items : List (ℝ × Int),
      items.Perm (m.map (fun p => (p.2, p.1))) ∧
      items.Pairwise (fun a c => if reverse then a.1 ≤ c.1 else c.1 ≤ a.1) ∧
      TextSort.sort (.weighted m) reverse limit = .ok (.ids (cut limit (items.map (·.2)))) := by
  refine ⟨Sort.isort (inFront reverse) (m.map (fun p => (p.2, p.1))), Sort.isort_perm _ _, ?_, ?_⟩
  · have := Sort.isort_sorted (inFront_tp reverse) (m.map (fun p => (p.2, p.1)))
    refine this.imp ?_
    intro a c hac
    rw [inFront_iff] at hac
    cases reverse
    · simpa using fst_le_of_lex (by simpa using hac)
    · simpa using fst_le_of_lex (by simpa using hac)
  · unfold TextSort.sort
    have : TextSort.isEmpty (Input.weighted m) = false := by
      cases m with
      | nil => exact absurd rfl hne
      | cons _ _ => rfl
    simp [this]

/-- **limit**: at most `limit` ids are kept, from the front; `None` – and `0` – keep everything. -/
theorem c20_sort_limit (l : List Int) :
    (∀ limit, cut limit l <+: l) ∧ cut none l = l ∧ cut (some 0) l = l ∧
    (∀ n : Int, 0 < n → (cut (some n) l).length = min n.toNat l.length) :=
  ⟨fun limit => cut_prefix limit l, rfl, by simp [cut], fun n hn => length_cut_pos n hn l⟩

/-- an empty result is returned unchanged (whatever its kind) -/
theorem c20_sort_empty (r : Input ℝ) (h : TextSort.isEmpty r = true) (reverse : Bool) (limit : Option Int) :
    TextSort.sort r reverse limit = .ok (.same r) := by
  unfold TextSort.sort; simp [h]

/-- a non-empty result without scores raises `TypeError` -/
theorem c20_sort_unweighted (ids : List Int) (h : ids ≠ []) (reverse : Bool) (limit : Option Int) :
    (TextSort.sort (.plain ids : Input ℝ) reverse limit) = .error .typeError := by
  unfold TextSort.sort
  have : TextSort.isEmpty (Input.plain ids : Input ℝ) = false := by
    cases ids with
    | nil => exact absurd rfl h
    | cons _ _ => rfl
  simp [this]

/-! ### non-vacuity -/
example : globFree (.andN [.atom [1], .orN [.phrase [[2], [3]], .atom [1]], .notN (.atom [4])]) = true := by
  decide
example : globFree (.orN [.atom [1], .glob [2]]) = false := by decide

end Hyp.C20
