import HypatiaProofs.Lemmas.TextScoreKeys
import HypatiaProofs.Properties.C03

/-!
# C20 (with C08) composed with C03: the scored result of `TextIndex.apply` has the keys of the key-set model

Property statements only; lemmas in `Lemmas/ExecRel.lean` (executing a tree over two related indexes) and
`Lemmas/TextScoreKeys.lean` (every primitive of the scoring index has the key set of the key-set index).
-/
set_option linter.unusedSectionVars false
set_option linter.unusedSimpArgs false
namespace Hyp.C20
open Hyp Hyp.Score Hyp.SetOps
open Hyp.QP (Tree Str exec Index parseQuery c14_well_formed)

-- for any BM25 parameters (`Score.Bm25`)
variable [Bm25 ℝ]

/-! ## composed with C03: scores and membership agree on who matches

`Text.scoreState s` / `Text.scoreLex cfg s` (`HypatiaModel/TextScoreBridge.lean`) read the scoring model's
document table, counter and lexicon answers off a state of the key-set model of C03 (lexicon, postings, encoded
`_docwords`): the table is `_docwords` decoded. -/

/-- **Every tree, every history, both back ends.**  After any history of the text index (index / re-index / no
value / unindex / reset; vocabulary below the 2^28 limit of the id encoding), executing a tree over the scoring
index raises exactly when the key-set model raises (`QueryError`: a `NotNode` outside an `AndNode`), returns
`None` exactly when it does, and otherwise `TextIndex.apply`'s scored result has exactly the keys of the key-set
model's result – for atoms, phrases (the encoded substring scan decides the same containment as the scan over
decoded word lists, C16), globs, AND / AND NOT / OR at any depth. -/
theorem c20_scored_keys_are_c03_result (cfg : Hyp.Lex.Cfg) (okapi : Bool) (k : Kind) (h : List Text.Op)
    (hs : Text.Small (Text.run cfg okapi h).base.lex) (t : Tree) :
    match exec (Text.indexOf cfg (Text.run cfg okapi h).base) t with
    | .error _ =>
      Score.apply (α := ℝ) k (Text.scoreState (Text.run cfg okapi h)) (Text.scoreLex cfg (Text.run cfg okapi h)) t
        = .error .queryError
    | .ok none =>
      Score.apply (α := ℝ) k (Text.scoreState (Text.run cfg okapi h)) (Text.scoreLex cfg (Text.run cfg okapi h)) t
        = .ok none
    | .ok (some r) =>
      ∃ m : WMap ℝ,
        Score.apply k (Text.scoreState (Text.run cfg okapi h)) (Text.scoreLex cfg (Text.run cfg okapi h)) t
          = .ok (some m) ∧ ∀ d, d ∈ AMap.keys m ↔ d ∈ r := by
  have hi := Text.inv_run cfg okapi h hs
  have hrel := Text.exec_keys cfg k hi hs t
  unfold Score.apply
  cases e2 : exec (Text.indexOf cfg (Text.run cfg okapi h).base) t with
  | error e' =>
    cases e1 : exec (textIndex k (Text.scoreState (Text.run cfg okapi h))
        (Text.scoreLex cfg (Text.run cfg okapi h)) : Index (Res ℝ)) t with
    | error e => rfl
    | ok a => rw [e1, e2] at hrel; exact hrel.elim
  | ok b =>
    cases e1 : exec (textIndex k (Text.scoreState (Text.run cfg okapi h))
        (Text.scoreLex cfg (Text.run cfg okapi h)) : Index (Res ℝ)) t with
    | error e => rw [e1, e2] at hrel; exact hrel.elim
    | ok a =>
      rw [e1, e2] at hrel
      cases b with
      | none =>
        cases a with
        | none => rfl
        | some x => exact hrel.elim
      | some r =>
        cases a with
        | none => exact hrel.elim
        | some x =>
          obtain ⟨m, rfl, hk⟩ := hrel
          simp only
          by_cases he : m.isEmpty = true
          · rw [if_pos he]; exact ⟨m, rfl, hk⟩
          · rw [if_neg he]
            refine ⟨_, rfl, fun d => ?_⟩
            rw [← hk d]
            simp [AMap.keys, List.map_map, Function.comp_def]

/-- …hence (C03, `c03_apply`) for every query string the parser accepts: the documents that get a score are
exactly the indexed documents whose token sequence satisfies the parsed query read as boolean logic -/
theorem c20_scored_documents_satisfy_query (cfg : Hyp.Lex.Cfg) (okapi : Bool) (k : Kind) (sp : Nat → Bool)
    (h : List Text.Op) (q : Str) (t : Tree) (ig : List Str)
    (hs : Text.Small (Text.run cfg okapi h).base.lex)
    (hp : parseQuery (Text.lexOf cfg) sp q = .ok (t, ig)) (hadm : Text.Spec.admissible cfg t = true) :
    ∃ m : WMap ℝ,
      Score.apply k (Text.scoreState (Text.run cfg okapi h)) (Text.scoreLex cfg (Text.run cfg okapi h)) t
        = .ok (some m) ∧
      ∀ d, d ∈ AMap.keys m ↔
        ∃ toks, Text.Spec.tokensOf (Text.Spec.table cfg h) d = some toks ∧ Text.Spec.sat t toks = true := by
  have hi := Text.inv_run cfg okapi h hs
  have hwf := c14_well_formed (Text.lexOf cfg) sp q t ig hp
  obtain ⟨r, h1, h2⟩ := Text.exec_spec cfg hi hs hwf hadm
  have := c20_scored_keys_are_c03_result cfg okapi k h hs t
  rw [h1] at this
  obtain ⟨m, hm, hk⟩ := this
  exact ⟨m, hm, fun d => by rw [hk d, h2 d, Text.satDoc_iff]⟩

end Hyp.C20
